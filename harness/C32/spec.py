TECHNIQUE = ('bounded symbolic execution of LLVM IR lowered to C: CBMC/SAT (cadical); bit-precise index kernel + '
             'sequential operation harness against a ghost array with lifetime counters')
ASSUMPTIONS = [
    'detail::alignedMalloc/alignedFree are replaced by their contract (fresh, suitably aligned block of >= the requested '
    'size, constant-size CBMC objects of 64 / 512 bytes; larger requests fail a check) -- the real functions are decided under C44; '
    'their pointer->integer->pointer round trip turns every element access into a whole-object byte update in CBMC',
    'size traits {kDefaultCapacity 2, kMaxVectorSize 32} supplied by specialising DefaultConcurrentVectorSizeTraits<Elem> '
    '(first bucket = 1 element, 6-entry buffer table); reserve() arguments <= 8 so that no bucket beyond the table is requested',
    'operations are called within their documented preconditions (positions inside [begin, end], pop_back on a non-empty vector)',
    'kernel: bucketAndSubIndex reads only firstBucketShift_/firstBucketLen_, which are set to a symbolic shift s and 1 << s',
]
OUTSIDE = ('histories of more than one symbolic operation after the concrete prefix for most operation kinds (see NOTES.md: CBMC symbolic '
           'execution of the template code does not finish for 2 symbolic operations of all kinds within 400 s); sizes above VF_MAXN; '
           'the fast (pointer-tagging) iterator instantiations beyond the instances listed; element types other than the '
           'lifetime-tracked int payload; memory reuse by the allocator')

# operation kinds (bit numbers) of history.cpp
PUSH = 0x7                     # push_back(const&), push_back(&&), emplace_back
GROW = 0x78 | (1 << 25)        # grow_by(n,v), grow_by(n), grow_by_generator, grow_to_at_least, grow_by(first,last)
INS1 = 0x180                   # insert(pos, const&), insert(pos, &&)
INS2 = 0x600                   # insert(pos, n, v), insert(pos, first, last)
ERASE1 = 0x800                 # erase(pos)
ERASE2 = 0x1000                # erase(first, last)
SHRINK = 0x3E000               # resize, reserve, pop_back, clear, shrink_to_fit
WHOLE = 0x1FC0000              # copy=, move=, swap, assign(n,v), assign(first,last), copy ctor, move ctor
GROUPS = [('push', PUSH), ('grow', GROW), ('ins1', INS1), ('ins2', INS2), ('erase1', ERASE1), ('erase2', ERASE2),
          ('shrink', SHRINK), ('whole', WHOLE)]
TRAITS = {'A': 1, 'D': 4, 'def': 0, 'B': 2, 'C': 3}
TRAIT_TEXT = {'A': 'TestTraitsA (heap buffer table, kHalfBufferAhead, compact iterator)',
              'D': 'inline buffer table, kHalfBufferAhead, compact iterator',
              'def': 'DefaultConcurrentVectorTraits (inline table, kAsNeeded, fast iterator)',
              'B': 'TestTraitsB (inline table, kFullBufferAhead, fast iterator)',
              'C': 'heap table, kAsNeeded, fast iterator'}


def hist(tr, gname, mask, prefix, maxn, tiers, ops=1, mask1=None, timeout=600):
    defs = {'VF_TRAITS': TRAITS[tr], 'VF_OPS': ops, 'VF_PREFIX': prefix, 'VF_MAXN': maxn, 'VF_WCONST': 2, 'VF_PROBE': 1,
            'VF_MASK0': hex(mask)}
    if mask1 is not None:
        defs['VF_MASK1'] = hex(mask1)
    return {'name': 'hist_%s_%s_p%d%s' % (tr, gname, prefix, '' if ops == 1 else '_x%d' % ops), 'src': 'history.cpp',
            'engine': 'cbmc', 'defs': defs, 'unwind': maxn + 2, 'timeout': timeout, 'tiers': tiers,
            'bounds': ('%s; first bucket 1 element; concrete prefix of %d emplace_back calls, then %d symbolic operation(s) of kind group '
                       '"%s" with symbolic positions/counts/values; second vector of 2 elements (first bucket 2); size <= %d; '
                       'final walk with both iterator directions, random access and comparisons') % (
                           TRAIT_TEXT[tr], prefix, ops, gname, maxn)}


INSTANCES = [
    {'name': 'kernel', 'src': 'kernel.cpp', 'engine': 'cbmc', 'unwind': 8, 'timeout': 600,
     'bounds': 'none for the mapping: every index < 2^63, every first-bucket shift 0..62 (bit-vector semantics); '
               'documented-maximum check for the default size traits of a 4-byte element'},
]
KINDS = ['push_back_copy', 'push_back_move', 'emplace_back', 'grow_by_value', 'grow_by_default', 'grow_by_generator', 'grow_to_at_least',
         'insert_copy', 'insert_move', 'insert_count', 'insert_range', 'erase_pos', 'erase_range', 'resize', 'reserve', 'pop_back', 'clear',
         'shrink_to_fit', 'copy_assign', 'move_assign', 'swap', 'assign_count', 'assign_range', 'copy_ctor', 'move_ctor', 'grow_by_range']
# quick: compact-iterator traits A from a 3-element prefix; the groups that finish in the quick budget on a loaded machine
for g, m in (('push', PUSH), ('ins1', INS1), ('erase1', ERASE1)):
    INSTANCES.append(hist('A', g, m, 3, 4, ['quick', 'thorough']))
# thorough: one instance per operation kind (measured: a single kind needs 10..200 s, a group of 5..7 kinds does not finish in 600 s
# when the machine is shared), traits A and D, prefixes 0 and 3
for k, name in enumerate(KINDS):
    if (1 << k) & (PUSH | INS1 | ERASE1):
        continue
    INSTANCES.append(hist('A', name, 1 << k, 3, 4, ['thorough'], timeout=1200))
for g, m in (('push', PUSH), ('ins1', INS1), ('erase1', ERASE1), ('erase2', ERASE2)):
    INSTANCES.append(hist('A', g, m, 0, 4, ['thorough'], timeout=1200))
    INSTANCES.append(hist('D', g, m, 3, 4, ['thorough'], timeout=1200))


# ---------------------------------------------------------------------------------------------------------------------
# spill.cpp: pointer-caching (kIteratorPreferSpeed) iterator, one growing operation that spills into a never-allocated bucket
SCEN = {'insert_count': 0, 'insert_range': 1, 'insert_ilist': 2, 'grow_default': 3, 'grow_value': 4, 'resize': 5, 'emplace_x': 6,
        'push_x': 7, 'grow_ilist': 8, 'grow_range': 9, 'grow_gen': 10, 'grow_to_at_least': 11, 'insert_one_x': 12,
        'insert_vrange': 13}
STRAITS = {'def': 0, 'A': 1, 'B': 2, 'C': 3, 'E': 4}


def spill(tr, scen, first, prefix, cnt, tiers, pos=None, timeout=600):
    defs = {'VF_TRAITS': STRAITS[tr], 'VF_SCEN': SCEN[scen], 'VF_FIRST': first, 'VF_PREFIX': prefix, 'VF_CNT': cnt, 'VF_CV_HEADER': 64}
    if pos is not None:
        defs['VF_POS'] = pos
    return {'name': 'spill_%s_%s_f%d_p%d_c%d%s' % (tr, scen, first, prefix, cnt, '' if pos is None else '_at%d' % pos),
            'src': 'spill.cpp', 'engine': 'cbmc', 'defs': defs, 'unwind': prefix + cnt + 2, 'timeout': timeout, 'tiers': tiers,
            'bounds': 'x'}


INSTANCES.append(spill('def', 'insert_count', 0, 3, 2, ['dev'], pos=1))
INSTANCES.append(spill('def', 'insert_count', 0, 3, 2, ['dev']))
