// C32 (bucket spill, pointer-caching iterator): ONE growing operation applied to a concrete prefix
// that ends just before a bucket boundary, so that the operation spills into a bucket that has never
// been allocated.  Same oracle as history.cpp (ghost array + lifetime counters of tracked.h) plus
// CBMC's pointer checks on every element access of the real code: with kIteratorPreferSpeed == true
// an iterator caches the bucket's buffer pointer, so an iterator that is formed for a position inside
// a bucket *before* that bucket is allocated holds nullptr + k and the first write through it is a
// dereference failure (natively: SEGV under ASan).
//
// Every size is a literal of the instance (VF_FIRST, VF_PREFIX, VF_CNT); the insertion position is
// symbolic but dispatched to one fully literal scenario per value (the vector lives and dies inside
// the scenario, so the scenarios do not merge); element values are symbolic.
//
// Real code driven: ConcurrentVector<Elem, Traits>::{ctor(), ctor(cap, ReserveTag), emplace_back,
//   insert(pos, n, v), insert(pos, It, It), insert(pos, initializer_list), insert(pos, const T&),
//   insert(pos, T&&), grow_by(n), grow_by(n, v), grow_by(It, It), grow_by(initializer_list),
//   grow_by_generator, grow_to_at_least(n), grow_to_at_least(n, v), resize(n), resize(n, v),
//   push_back(const T&), push_back(T&&), operator[], begin/end/cbegin/cend, size, empty, front, back,
//   clear, shrink_to_fit, ~ConcurrentVector}, insertPartial (both overloads), growByUninitialized,
//   internalFillN/internalFillDefaultN/internalInit, ConVecBuffer::allocAsNecessary (both overloads),
//   cv::ConcurrentVectorIterator / cv::CompactCVecIterator (++, --, +, -, +=, difference, comparison, *).
#include <new>
#include <utility>
#include <initializer_list>
#include "cv_alloc_model.h"
#include <dispenso/concurrent_vector.h>
#include "tracked.h"

VfCounters g_cnt;

// Hint for the CBMC model only (no effect natively, see rt/cbmc_rt.h VF_UNTAG): the fast iterator keeps the vector's
// address with the bucket number in its low 6 bits (vb_); the model resolves `vb_ & ~63` to a registered vector under
// a checked equality instead of treating it as an arbitrary integer-derived pointer.
extern "C" void vf_untag_register(void* p);

struct Elem : Tracked {
  Elem() noexcept : Tracked(-1) {}
  explicit Elem(int32_t x) noexcept : Tracked(x) {}
};

// Same size traits as history.cpp: smallest default first bucket (1 element; buckets 1,1,2,4,8,16) and a
// 6-entry buffer table, supplied by specialising the documented default size traits for the element type.
// Larger first buckets are chosen per instance through the real reserving constructor (VF_FIRST).
namespace dispenso {
template <>
struct DefaultConcurrentVectorSizeTraits<Elem> {
  static constexpr size_t kDefaultCapacity = 2;
  static constexpr size_t kMaxVectorSize = 32;
};
} // namespace dispenso

using dispenso::ConcurrentVectorReallocStrategy;
struct TraitsA {  // tests/concurrent_vector_test_common_types.h TestTraitsA (compact iterator; for comparison)
  static constexpr bool kPreferBuffersInline = false;
  static constexpr ConcurrentVectorReallocStrategy kReallocStrategy =
      ConcurrentVectorReallocStrategy::kHalfBufferAhead;
  static constexpr bool kIteratorPreferSpeed = false;
};
struct TraitsB {  // TestTraitsB: inline table + full buffer ahead + fast iterator
  static constexpr bool kPreferBuffersInline = true;
  static constexpr ConcurrentVectorReallocStrategy kReallocStrategy =
      ConcurrentVectorReallocStrategy::kFullBufferAhead;
  static constexpr bool kIteratorPreferSpeed = true;
};
struct TraitsC {  // heap buffer table + as-needed + fast iterator
  static constexpr bool kPreferBuffersInline = false;
  static constexpr ConcurrentVectorReallocStrategy kReallocStrategy =
      ConcurrentVectorReallocStrategy::kAsNeeded;
  static constexpr bool kIteratorPreferSpeed = true;
};
struct TraitsE {  // inline table + half buffer ahead + fast iterator
  static constexpr bool kPreferBuffersInline = true;
  static constexpr ConcurrentVectorReallocStrategy kReallocStrategy =
      ConcurrentVectorReallocStrategy::kHalfBufferAhead;
  static constexpr bool kIteratorPreferSpeed = true;
};

#ifndef VF_TRAITS
#define VF_TRAITS 0
#endif
#if VF_TRAITS == 0
using Traits = dispenso::DefaultConcurrentVectorTraits;  // inline table, kAsNeeded, fast iterator
#elif VF_TRAITS == 1
using Traits = TraitsA;
#elif VF_TRAITS == 2
using Traits = TraitsB;
#elif VF_TRAITS == 3
using Traits = TraitsC;
#else
using Traits = TraitsE;
#endif
using Vec = dispenso::ConcurrentVector<Elem, Traits>;

#ifndef VF_FIRST
#define VF_FIRST 0  // 0: default constructor (first bucket kDefaultCapacity / 2 = 1); else Vec(VF_FIRST, ReserveTag)
#endif
#ifndef VF_PREFIX
#define VF_PREFIX 3
#endif
#ifndef VF_CNT
#define VF_CNT 2
#endif
#ifndef VF_SCEN
#define VF_SCEN 0
#endif
#define NFINAL (VF_PREFIX + VF_CNT)

// operation kinds (VF_SCEN)
#define S_INSERT_COUNT 0   // insert(pos, VF_CNT, value)
#define S_INSERT_RANGE 1   // insert(pos, first, last), source = array of VF_CNT elements (pointer iterators)
#define S_INSERT_ILIST 2   // insert(pos, {..VF_CNT elements..})
#define S_GROW_DEFAULT 3   // grow_by(VF_CNT)
#define S_GROW_VALUE 4     // grow_by(VF_CNT, value)
#define S_RESIZE 5         // resize(VF_PREFIX + VF_CNT) / resize(.., value)  (symbolic choice)
#define S_EMPLACE 6        // emplace_back x VF_CNT
#define S_PUSH 7           // push_back(const&) / push_back(&&) x VF_CNT (symbolic choice per call)
#define S_GROW_ILIST 8     // grow_by({..})
#define S_GROW_RANGE 9     // grow_by(first, last) from an array
#define S_GROW_GEN 10      // grow_by_generator(VF_CNT, gen)
#define S_GROW_ATLEAST 11  // grow_to_at_least(n) / (n, value)
#define S_INSERT_ONE 12    // insert(pos, const T&) / insert(pos, T&&) x VF_CNT at the same position
#define S_INSERT_VRANGE 13 // insert(pos, first, last), source = another ConcurrentVector's const_iterators

struct Ghost {
  int32_t a[NFINAL + 1];
  uint32_t n;
};

struct Gen {
  int32_t* next;
  Elem operator()() { return Elem((*next)++); }
};

static int32_t sym() { return (int32_t)vf_range_u32(0, 100); }

#define IS_INSERT (VF_SCEN == S_INSERT_COUNT || VF_SCEN == S_INSERT_RANGE || VF_SCEN == S_INSERT_ILIST || \
                   VF_SCEN == S_INSERT_ONE || VF_SCEN == S_INSERT_VRANGE)

static void checkAll(Vec& v, const Ghost& g, int32_t others) {
  vf_check(v.size() == g.n, "size() equals the reference size");
  vf_check(v.empty() == (g.n == 0), "empty() agrees with the reference");
  for (uint32_t i = 0; i < NFINAL; ++i) {
    if (i < g.n) vf_check(v[i].v == g.a[i], "operator[] returns the reference contents");
  }
  vf_check(g_cnt.live == (int32_t)g.n + others, "live objects == size");
}

static void walk(Vec& v, const Ghost& g) {
  const Vec& cv = v;
  uint32_t i = 0;
  auto e = v.end();
  for (auto it = v.begin(); it != e && i <= NFINAL; ++it, ++i) {
    if (i < g.n) vf_check(it->v == g.a[i], "forward iteration visits the reference contents in order");
  }
  vf_check(i == g.n, "forward iteration visits exactly size() elements");
  i = g.n;
  for (auto it = cv.cend(); it != cv.cbegin() && i > 0;) {
    --it;
    --i;
    vf_check((*it).v == g.a[i], "backward iteration visits the reference contents in reverse order");
  }
  vf_check(i == 0, "backward iteration visits exactly size() elements");
  vf_check(v.end() - v.begin() == (ssize_t)g.n, "end() - begin() == size()");
  if (g.n > 0) {
    vf_check(v.front().v == g.a[0] && v.back().v == g.a[g.n - 1], "front()/back() are the first/last element");
    auto last = v.begin() + (ssize_t)(g.n - 1);
    vf_check(last->v == g.a[g.n - 1] && &*last == &v[g.n - 1], "begin() + (size-1) refers to the last element");
  }
}

// One literal scenario: prefix, operation at position P, checks, destruction.
template <uint32_t P>
VF_NOINLINE static void scenario() {
  Ghost g;
  g.n = 0;
  {
#if VF_FIRST == 0
    Vec v;
#else
    Vec v((size_t)VF_FIRST, dispenso::ReserveTag);
#endif
    vf_untag_register(&v);
    for (int32_t i = 0; i < VF_PREFIX; ++i) {
      v.emplace_back(10 + i);
      g.a[i] = 10 + i;
      g.n = (uint32_t)i + 1;
    }
    vf_check(g_cnt.live == VF_PREFIX, "prefix: live objects == size");
    // reachability markers for the vacuity twin: a defect that crashes the operation (null-derived write) must not
    // make the whole instance "vacuous"; on a correct tree all three markers are reachable
    vf_reach("prefix built");
    const uint32_t n = VF_PREFIX;
    int32_t x = sym();
    int32_t others = 0;  // live objects that are not elements of v at the time of the check

#if IS_INSERT
    // reference: open a gap of VF_CNT at P
    for (uint32_t i = n; i > P; --i) g.a[i - 1 + VF_CNT] = g.a[i - 1];
    g.n = n + VF_CNT;
#endif

#if VF_SCEN == S_INSERT_COUNT
    {
      Elem e(x);
      auto it = v.insert(v.cbegin() + (ssize_t)P, (size_t)VF_CNT, e);
      vf_check(it - v.begin() == (ssize_t)P, "insert returns the position of the first inserted element");
      vf_check(it->v == x, "insert: returned iterator refers to the first inserted value");
    }
    for (uint32_t i = 0; i < VF_CNT; ++i) g.a[P + i] = x;
#elif VF_SCEN == S_INSERT_RANGE
    {
      Elem src[VF_CNT] = {Elem(x), Elem(x + 1)
#if VF_CNT >= 3
                                       ,
                          Elem(x + 2)
#endif
#if VF_CNT >= 4
                              ,
                          Elem(x + 3)
#endif
      };
      const Elem* first = src;
      auto it = v.insert(v.cbegin() + (ssize_t)P, first, first + VF_CNT);
      vf_check(it - v.begin() == (ssize_t)P, "insert returns the position of the first inserted element");
      vf_check(it->v == x, "insert: returned iterator refers to the first inserted value");
    }
    for (uint32_t i = 0; i < VF_CNT; ++i) g.a[P + i] = x + (int32_t)i;
#elif VF_SCEN == S_INSERT_VRANGE
    {
      Vec w((size_t)VF_CNT, Elem(x));  // first bucket >= 2
      vf_untag_register(&w);
      for (uint32_t i = 0; i < VF_CNT; ++i) w[i].v = x + (int32_t)i;
      auto it = v.insert(v.cbegin() + (ssize_t)P, w.cbegin(), w.cend());
      vf_check(it - v.begin() == (ssize_t)P, "insert returns the position of the first inserted element");
      vf_check(g_cnt.live == (int32_t)(n + 2 * VF_CNT), "insert(pos, first, last): live objects == size (+ source)");
    }
    for (uint32_t i = 0; i < VF_CNT; ++i) g.a[P + i] = x + (int32_t)i;
#elif VF_SCEN == S_INSERT_ILIST
    {
#if VF_CNT == 2
      auto it = v.insert(v.cbegin() + (ssize_t)P, {Elem(x), Elem(x + 1)});
#elif VF_CNT == 3
      auto it = v.insert(v.cbegin() + (ssize_t)P, {Elem(x), Elem(x + 1), Elem(x + 2)});
#else
      auto it = v.insert(v.cbegin() + (ssize_t)P, {Elem(x), Elem(x + 1), Elem(x + 2), Elem(x + 3)});
#endif
      vf_check(it - v.begin() == (ssize_t)P, "insert returns the position of the first inserted element");
      vf_check(it->v == x, "insert: returned iterator refers to the first inserted value");
    }
    for (uint32_t i = 0; i < VF_CNT; ++i) g.a[P + i] = x + (int32_t)i;
#elif VF_SCEN == S_INSERT_ONE
    for (uint32_t k = 0; k < VF_CNT; ++k) {
      Elem e(x + (int32_t)k);
      if (vf_nondet_bool()) {
        auto it = v.insert(v.cbegin() + (ssize_t)P, e);
        vf_check(it - v.begin() == (ssize_t)P, "insert returns the position of the inserted element");
      } else {
        auto it = v.insert(v.cbegin() + (ssize_t)P, std::move(e));
        vf_check(it - v.begin() == (ssize_t)P, "insert returns the position of the inserted element");
      }
      vf_check(g_cnt.live == (int32_t)(n + k + 1) + 1, "insert(pos, value): live objects == size");
      g.a[P + VF_CNT - 1 - k] = x + (int32_t)k;  // each insert at P pushes the earlier ones up
    }
#elif VF_SCEN == S_GROW_DEFAULT
    {
      auto it = v.grow_by((size_t)VF_CNT);
      vf_check(it - v.begin() == (ssize_t)n, "grow_by returns the start of the grown range");
    }
    for (uint32_t i = 0; i < VF_CNT; ++i) g.a[n + i] = -1;
    g.n = n + VF_CNT;
#elif VF_SCEN == S_GROW_VALUE
    {
      Elem e(x);
      auto it = v.grow_by((size_t)VF_CNT, e);
      vf_check(it - v.begin() == (ssize_t)n, "grow_by returns the start of the grown range");
      vf_check(it->v == x, "grow_by: returned iterator refers to the first new value");
    }
    for (uint32_t i = 0; i < VF_CNT; ++i) g.a[n + i] = x;
    g.n = n + VF_CNT;
#elif VF_SCEN == S_RESIZE
    {
      bool withValue = vf_nondet_bool();
      if (withValue) {
        Elem e(x);
        v.resize((size_t)(n + VF_CNT), e);
      } else {
        v.resize((size_t)(n + VF_CNT));
      }
      for (uint32_t i = 0; i < VF_CNT; ++i) g.a[n + i] = withValue ? x : -1;
      g.n = n + VF_CNT;
    }
#elif VF_SCEN == S_EMPLACE
    for (uint32_t k = 0; k < VF_CNT; ++k) {
      auto it = v.emplace_back(x + (int32_t)k);
      vf_check(it - v.begin() == (ssize_t)(n + k), "emplace_back returns the position of the new element");
      vf_check(it->v == x + (int32_t)k, "emplace_back: returned iterator refers to the new value");
      g.a[n + k] = x + (int32_t)k;
      g.n = n + k + 1;
    }
#elif VF_SCEN == S_PUSH
    for (uint32_t k = 0; k < VF_CNT; ++k) {
      Elem e(x + (int32_t)k);
      if (vf_nondet_bool()) {
        auto it = v.push_back(e);
        vf_check(it - v.begin() == (ssize_t)(n + k), "push_back returns the position of the new element");
        vf_check(it->v == x + (int32_t)k, "push_back: returned iterator refers to the new value");
      } else {
        auto it = v.push_back(std::move(e));
        vf_check(it - v.begin() == (ssize_t)(n + k), "push_back returns the position of the new element");
      }
      g.a[n + k] = x + (int32_t)k;
      g.n = n + k + 1;
    }
#elif VF_SCEN == S_GROW_ILIST
    {
#if VF_CNT == 2
      auto it = v.grow_by({Elem(x), Elem(x + 1)});
#elif VF_CNT == 3
      auto it = v.grow_by({Elem(x), Elem(x + 1), Elem(x + 2)});
#else
      auto it = v.grow_by({Elem(x), Elem(x + 1), Elem(x + 2), Elem(x + 3)});
#endif
      vf_check(it - v.begin() == (ssize_t)n, "grow_by returns the start of the grown range");
    }
    for (uint32_t i = 0; i < VF_CNT; ++i) g.a[n + i] = x + (int32_t)i;
    g.n = n + VF_CNT;
#elif VF_SCEN == S_GROW_RANGE
    {
      Elem src[VF_CNT] = {Elem(x), Elem(x + 1)
#if VF_CNT >= 3
                                       ,
                          Elem(x + 2)
#endif
#if VF_CNT >= 4
                              ,
                          Elem(x + 3)
#endif
      };
      const Elem* first = src;
      auto it = v.grow_by(first, first + VF_CNT);
      vf_check(it - v.begin() == (ssize_t)n, "grow_by returns the start of the grown range");
    }
    for (uint32_t i = 0; i < VF_CNT; ++i) g.a[n + i] = x + (int32_t)i;
    g.n = n + VF_CNT;
#elif VF_SCEN == S_GROW_GEN
    {
      int32_t next = x;
      auto it = v.grow_by_generator((size_t)VF_CNT, Gen{&next});
      vf_check(it - v.begin() == (ssize_t)n, "grow_by_generator returns the start of the grown range");
    }
    for (uint32_t i = 0; i < VF_CNT; ++i) g.a[n + i] = x + (int32_t)i;
    g.n = n + VF_CNT;
#elif VF_SCEN == S_GROW_ATLEAST
    {
      bool withValue = vf_nondet_bool();
      if (withValue) {
        Elem e(x);
        auto it = v.grow_to_at_least((size_t)(n + VF_CNT), e);
        vf_check(it - v.begin() == (ssize_t)n, "grow_to_at_least returns the start of the grown range");
      } else {
        auto it = v.grow_to_at_least((size_t)(n + VF_CNT));
        vf_check(it - v.begin() == (ssize_t)n, "grow_to_at_least returns the start of the grown range");
      }
      for (uint32_t i = 0; i < VF_CNT; ++i) g.a[n + i] = withValue ? x : -1;
      g.n = n + VF_CNT;
    }
#else
#error unknown VF_SCEN
#endif
    (void)others;
    vf_reach("operation returned");
    checkAll(v, g, 0);
#ifndef VF_NOWALK
    walk(v, g);
#endif
  }
  vf_reach("vector destroyed");
  vf_check(g_cnt.live == 0, "every element is destroyed by the time the vector is gone");
  vf_check(g_cnt.ctor == g_cnt.dtor, "constructions and destructions balance");
}

extern "C" void vf_main() {
#if IS_INSERT
#ifdef VF_POS
  scenario<VF_POS>();
#else
  // symbolic position, one literal scenario per value (the whole life of the vector is inside the scenario)
  uint32_t p = vf_range_u32(0, VF_PREFIX);
  switch (p) {
    case 0:
      scenario<0>();
      break;
#if VF_PREFIX >= 1
    case 1:
      scenario<1>();
      break;
#endif
#if VF_PREFIX >= 2
    case 2:
      scenario<2>();
      break;
#endif
#if VF_PREFIX >= 3
    case 3:
      scenario<3>();
      break;
#endif
#if VF_PREFIX >= 4
    case 4:
      scenario<4>();
      break;
#endif
#if VF_PREFIX >= 5
    case 5:
      scenario<5>();
      break;
#endif
#if VF_PREFIX >= 6
    case 6:
      scenario<6>();
      break;
#endif
#if VF_PREFIX >= 7
    case 7:
      scenario<7>();
      break;
#endif
    default:
      vf_assume(false);
      break;
  }
#endif
#else
  scenario<0>();
#endif
}
