// C32 (kernel, bit-precise): ConcurrentVector::bucketAndSubIndex / bucketAndSubIndexForIndex map an
// element index to (bucket, sub-index, bucket capacity) bijectively and consistently with the bucket
// sizes F, F, 2F, 4F, ... (F = first bucket length = 1 << firstBucketShift_), for every 64-bit index
// below 2^63 and every first-bucket shift; the iterators' inverse (index = sub-index + (bucket ?
// capacity : 0), concurrent_vector_impl.h operator- / operator+=) recovers the index; indices below
// the documented kMaxVectorSize stay inside the kMaxBuffers-entry buffer table; the reserving
// constructor establishes firstBucketLen_ == 1 << firstBucketShift_ >= requested capacity.
//
// Real code: ConcurrentVector<int32_t>::bucketAndSubIndex, bucketAndSubIndexForIndex (the real member
// functions, called on an object whose two size fields are symbolic), detail::log2 (bsr asm),
// detail::nextPow2, the constructor's shift computation.
#include <new>
#include "cv_alloc_model.h"
#include <dispenso/concurrent_vector.h>
#include "vf.h"

// The object the member functions are called on: a vector with a 6-entry buffer table (the default
// table for int32_t has 40 cache-line-sized entries, which only makes the CBMC object large; the
// functions under test read nothing but firstBucketShift_ / firstBucketLen_ and do not depend on T).
struct KElem {
  int32_t v;
};
namespace dispenso {
template <>
struct DefaultConcurrentVectorSizeTraits<KElem> {
  static constexpr size_t kDefaultCapacity = 2;
  static constexpr size_t kMaxVectorSize = 32;
};
} // namespace dispenso
using Vec = dispenso::ConcurrentVector<KElem>;
using DefVec = dispenso::ConcurrentVector<int32_t>;  // only its compile-time constants are used
using dispenso::cv::BucketInfo;

// reference bucket layout
static inline uint64_t capOf(uint64_t F, uint64_t b) { return F << ((b < 2 ? 1 : b) - 1); }
// start(0) = 0, start(1) = F = cap(1), start(b) = F << (b-1) = cap(b) for b >= 2
static inline uint64_t startOf(uint64_t F, uint64_t b) { return b == 0 ? 0 : capOf(F, b); }

extern "C" void vf_main() {
  Vec v;
  vf_check(v.firstBucketLen_ == (size_t{1} << v.firstBucketShift_) && v.firstBucketLen_ == 1,
           "default constructor: firstBucketLen_ == 1 << firstBucketShift_ == kDefaultCapacity / 2");

  // any first-bucket shift a reserving constructor can produce
  uint64_t shift = vf_range_u64(0, 62);
  uint64_t F = uint64_t{1} << shift;
  v.firstBucketShift_ = shift;
  v.firstBucketLen_ = F;

  // (1) index -> (bucket, sub, cap)
  uint64_t index = vf_nondet_u64();
  vf_assume(index < (uint64_t{1} << 63));
  BucketInfo bi = v.bucketAndSubIndex(index);
  vf_check(bi.bucketCapacity == capOf(F, bi.bucket), "bucketCapacity is the capacity of the reported bucket");
  vf_check(bi.bucketIndex < bi.bucketCapacity, "sub-index lies inside the bucket");
  vf_check(startOf(F, bi.bucket) + bi.bucketIndex == index, "bucket start + sub-index == index (injective)");
  vf_check(bi.bucketIndex + (bi.bucket ? bi.bucketCapacity : 0) == index,
           "the iterators' index reconstruction (sub + (bucket ? cap : 0)) inverts the mapping");
  BucketInfo bj = v.bucketAndSubIndexForIndex(index);
  vf_check(bj.bucket == bi.bucket && bj.bucketIndex == bi.bucketIndex && bj.bucketCapacity == bi.bucketCapacity,
           "bucketAndSubIndexForIndex agrees with bucketAndSubIndex");
  if (index >= F) {
    vf_check(bi.bucket >= 1 && bi.bucket == dispenso::detail::log2(index) + 1 - shift, "bucket number formula");
  }

  // (2) (bucket, sub) -> index -> (bucket, sub): surjective onto all in-range pairs
  uint64_t b = vf_range_u64(0, 63);
  uint64_t sub = vf_nondet_u64();
  vf_assume(b == 0 || shift + b - 1 <= 62);  // bucket lies below 2^63
  vf_assume(sub < capOf(F, b));
  uint64_t idx2 = startOf(F, b) + sub;
  BucketInfo bk = v.bucketAndSubIndex(idx2);
  vf_check(bk.bucket == b && bk.bucketIndex == sub && bk.bucketCapacity == capOf(F, b),
           "every (bucket, sub-index < capacity) pair is the image of bucket start + sub-index");

  // (3) successor: index + 1 is the next slot of the same bucket or slot 0 of the next bucket
  if (index + 1 < (uint64_t{1} << 63)) {
    BucketInfo bn = v.bucketAndSubIndex(index + 1);
    bool same = bn.bucket == bi.bucket && bn.bucketIndex == bi.bucketIndex + 1;
    bool next = bn.bucket == bi.bucket + 1 && bn.bucketIndex == 0 && bi.bucketIndex + 1 == bi.bucketCapacity;
    vf_check(same != next, "consecutive indices are consecutive slots (bucket order is index order)");
  }

  // (4) documented maximum size: with the default size traits and the default (smallest) first bucket,
  // every index below kMaxVectorSize maps into the buffer table
  {
    using DST = dispenso::DefaultConcurrentVectorSizeTraits<int32_t>;
    v.firstBucketShift_ = dispenso::detail::log2(DST::kDefaultCapacity / 2);
    v.firstBucketLen_ = DST::kDefaultCapacity / 2;
    uint64_t i = vf_nondet_u64();
    vf_assume(i < DST::kMaxVectorSize);
    BucketInfo x = v.bucketAndSubIndex(i);
    vf_check(x.bucket < DefVec::kMaxBuffers, "indices below kMaxVectorSize map inside the buffer table");
    v.firstBucketShift_ = 0;
    v.firstBucketLen_ = 1;
  }

  // (5) reserving constructor: shift/len computation
  {
    uint64_t cap = vf_range_u64(0, 4096);
    uint64_t want = cap < 64 ? 64 : cap;
    uint64_t len = dispenso::detail::nextPow2(want);
    uint64_t sh = dispenso::detail::log2(len);
    vf_check((uint64_t{1} << sh) == len && len >= want && len < 2 * want,
             "first bucket length is the smallest power of two >= max(startCapacity, kDefaultCapacity / 2)");
  }
}
