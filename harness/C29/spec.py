import os, importlib.util
_p = os.path.join(os.path.dirname(os.path.abspath(__file__)), '..', 'C27', 'spec.py')
_sp = importlib.util.spec_from_file_location('spec_C27_shared', _p)
_m = importlib.util.module_from_spec(_sp)
_sp.loader.exec_module(_m)

TECHNIQUE = _m.TECHNIQUE + '; exceptions enabled (invoke/landingpad lowered to an exception-token model)'
ASSUMPTIONS = [a for a in _m.ASSUMPTIONS if 'do not throw' not in a] + [
    'dispenso::OnceFunction replaced by its contract (harness/C27/shim/dispenso/once_function.h: typed heap holder; operator() runs and '
    'destroys the callable, cleanupNotRun() destroys it, NO destructor - exactly the obligations of the real class, which is property C39)',
    'exception model (DESIGN.md 2.5): an exception is an opaque token; every handler matches (the code under test only uses catch (...)); '
    'std::exception_ptr holds the token',
]
OUTSIDE = _m.OUTSIDE + ('; two stages throwing truly concurrently (the kSetting window of trySetCurrentException); exception types / RTTI')


def exc(name, *a, tstages=2, throwers=1, **kw):
    extra = dict(kw.pop('extra', {}) or {})
    extra.update({'VF_TSTAGES': tstages, 'VF_THROWERS': throwers})
    d = _m.pl(name, *a, src='exc.cpp', extra=extra, exceptions=True, **kw)
    d['bounds'] += ('; %d symbolic (item, stage) pair(s) throw, stage out of {%s}'
                    % (throwers, ', '.join(('generator' if k == 0 else 'stage %d' % k) for k in range(4) if (tstages >> k) & 1)))
    return d


_Q = ('quick', 'thorough')
INSTANCES = [
    exc('g_s_p1', 1, 1, tstages=2, tiers=_Q),
]
