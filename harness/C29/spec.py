import os, importlib.util
_p = os.path.join(os.path.dirname(os.path.abspath(__file__)), '..', 'C27', 'spec.py')
_sp = importlib.util.spec_from_file_location('spec_C27_shared', _p)
_m = importlib.util.module_from_spec(_sp)
_sp.loader.exec_module(_m)

TECHNIQUE = _m.TECHNIQUE + '; exceptions enabled (invoke/landingpad lowered to an exception-token model)'
ASSUMPTIONS = [a for a in _m.ASSUMPTIONS if 'do not throw' not in a] + [
    'dispenso::OnceFunction replaced by its contract (harness/C27/shim/dispenso/once_function.h: typed heap holder; operator() runs and '
    'destroys the callable, cleanupNotRun() destroys it, NO destructor - exactly the obligations of the real class, which is property C39)',
    'exception model (DESIGN.md 2.5): an exception is an opaque token; every handler matches (the code under test only uses catch (...)); '
    'std::exception_ptr holds the token',
]
OUTSIDE = _m.OUTSIDE + ('; two stages throwing truly concurrently (the kSetting window of trySetCurrentException); exception types / RTTI')


def exc(name, *a, tstages=2, throwers=1, **kw):
    extra = dict(kw.pop('extra', {}) or {})
    extra.update({'VF_TSTAGES': tstages, 'VF_THROWERS': throwers})
    d = _m.pl(name, *a, src='exc.cpp', extra=extra, exceptions=True, **kw)
    d['bounds'] += ('; %d symbolic (item, stage) pair(s) throw, stage out of {%s}'
                    % (throwers, ', '.join(('generator' if k == 0 else 'stage %d' % k) for k in range(4) if (tstages >> k) & 1)))
    return d


_Q = ('quick', 'thorough')
_T = ('thorough',)
INSTANCES = [
    # serial sink throws; items queued behind it are discarded
    exc('g_s_p1', 1, 1, tstages=2, tiers=_Q),
    # overloaded pool: stages run inline inside the generator, which runs inline inside pipeline(): the exception of an
    # unlimited stage travels through frames without a handler
    exc('g_xu_s_p1_c2', 1, 2, l1=99, ctx=2, tstages=6, tiers=_Q),
    # the generator itself throws
    exc('gT_x_s_p1', 1, 2, tstages=1, tiers=_Q),
    # thorough
    exc('g_x2_s_p2', 2, 2, l1=2, tstages=6, tiers=_T, timeout=3000),   # limit-2 transform or serial sink throws, 2 threads
    exc('g_s2_p1', 1, 1, l1=2, tstages=2, tiers=_T, timeout=3000),     # limit-2 sink: both items packaged before the throw
    exc('g_s_p2_t2', 2, 1, tstages=3, throwers=2, tiers=_T, timeout=3000),  # two throwers (generator and/or sink): "first" exception
    exc('g_f_s_p1', 1, 2, flt=1, tstages=4, tiers=_T, timeout=3000),   # sink behind a filter throws
]
