// C29: if a stage throws, pipeline() terminates and rethrows the first exception, no item is
// processed by any stage twice, the generator stops producing once the exception is observed, and
// everything the pipeline holds (including discarded queued items) is released.
// Same kit as C27 (../C27/pl_kit.h), compiled with exceptions.  Symbolic: which (item, stage) pair(s)
// throw - stage out of the VF_TSTAGES bit mask (bit 0 = generator), item any of the produced ones;
// VF_THROWERS=2: a second pair - number of items, every scheduling choice as in C27.
// Oracle: g_firstThrown = code of the first vf_throw executed (in the sequential model "first" is
// well defined).  Item is a lifetime-counted payload (g_live); the OnceFunction contract shim counts
// stored callables that were neither run nor cleaned up (OnceGhost::live()).
#define VF_CHK_EXC 1
#include "../C27/pl_kit.h"

#ifndef VF_TSTAGES
#define VF_TSTAGES 2  // stage 1 throws
#endif

using namespace plkit;

static uint32_t pickThrower() {
  uint32_t item = vf_range_u32(0, VF_ITEMS - 1);
  uint32_t st = vf_range_u32(0, VF_NST);
  vf_assume((VF_TSTAGES >> st) & 1);
  return item * 4 + st;
}

extern "C" void vf_main() {
  {
    dispenso::ThreadPool pool(VF_POOL_N);
    Scenario sc(pool);
    g_throwA = pickThrower();
#if VF_THROWERS >= 2
    g_throwB = pickThrower();
    vf_assume(g_throwB > g_throwA);
#endif
    bool thrown = false;
    uint32_t tok = 99;
    try {
      callPipeline(pool);
    } catch (...) {
      thrown = true;
      tok = caughtId();
    }
    g_returned = true;
    if (g_firstThrown >= 0) {
      vf_check(thrown, "a stage threw but pipeline() returned normally");
      vf_check(!thrown || tok == (uint32_t)g_firstThrown, "pipeline() rethrew something other than the first exception");
    } else {
      vf_check(!thrown, "pipeline() threw although no stage threw");
    }
    vf_check(pool.cnt_ == 0, "a task of the pipeline is still queued in the pool after pipeline() returned or threw");
    vf_check(g_in[0] == 0 && g_in[1] == 0 && g_in[2] == 0 && g_in[3] == 0, "a stage invocation is still in progress after pipeline() returned or threw");
    vf_check(g_live == 0, "item payloads are still alive after pipeline() returned or threw (discarded work was not destroyed)");
    vf_check(dispenso::detail::OnceGhost::live() == 0, "a queued OnceFunction was neither run nor cleaned up (its callable leaks)");
    vf_check(pool.workRemaining_.load() == sc.extraWork, "the pool's pending-work counter is off after the pipeline (pool not reusable)");
    if (g_firstThrown < 0) {
      vf_check(g_next == g_n, "no exception: pipeline() returned before the generator reached end-of-input");
    }
    sc.restore(pool);
    if (thrown) {
      vf_reach("pipeline() rethrew");
    }
    vf_reach("pipeline() returned or threw");
  }
  vf_reach("end");
}
