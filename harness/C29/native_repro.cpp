// Native reproducer (real dispenso: real ThreadPool, real OnceFunction, real moodycamel queue) of
// the C29 finding: an item queued behind a throwing serial stage is dropped by
// LimitGatedScheduler::Impl::wait() -> ConcurrentTaskSet::schedule() on the cancelled set without
// cleanupNotRun(): its payload is never destroyed.  Variant used here: sink = stage(f, 2): items 0 and 1 are
// both handed to the task set (packaged OnceFunctions); item 0 throws, the set is cancelled, the packaged
// task of item 1 is skipped (task_set_impl.h packageTask) and its OnceFunction is never run nor cleaned up.
#include <dispenso/pipeline.h>
#include <atomic>
#include <chrono>
#include <cstdio>
#include <thread>

static std::atomic<int> g_live{0};
struct Payload {
  int id;
  int* blk;
  explicit Payload(int i) : id(i), blk(new int(i)) { ++g_live; }
  Payload(const Payload& o) : id(o.id), blk(new int(*o.blk)) { ++g_live; }
  Payload(Payload&& o) noexcept : id(o.id), blk(o.blk) { o.blk = nullptr; ++g_live; }
  ~Payload() { delete blk; --g_live; }
};

int main() {
  int leakedRuns = 0, runs = 100;
  for (int r = 0; r < runs; ++r) {
    dispenso::ThreadPool pool(4);
    // occupy 3 of the 4 workers, so that the generator's worker is not "overloaded" (both items get queued as
    // packaged tasks instead of running inline) and the queued items run one after the other
    for (int b = 0; b < 3; ++b) {
      pool.schedule([]() { std::this_thread::sleep_for(std::chrono::milliseconds(10)); }, dispenso::ForceQueuingTag());
    }
    std::this_thread::sleep_for(std::chrono::milliseconds(2));
    int next = 0;
    bool threw = false;
    try {
      dispenso::pipeline(
          pool,
          [&]() -> dispenso::OpResult<Payload> {
            if (next >= 2) {
              return {};
            }
            return Payload(next++);
          },
          dispenso::stage(
              [](Payload p) {
                if (p.id == 0) {
                  throw 42;
                }
              },
              2));
    } catch (int) {
      threw = true;
    }
    if (g_live.load() != 0) {
      ++leakedRuns;
      g_live = 0;
    }
    (void)threw;
  }
  std::printf("runs=%d runs_with_undestroyed_payload=%d\n", runs, leakedRuns);
  return leakedRuns ? 1 : 0;
}
