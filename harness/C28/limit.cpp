// C28: no pipeline stage ever has more concurrent invocations than its stage limit (a stage given
// as a plain function is serial), and the generator likewise never runs more concurrent instances
// than its limit.  Same kit as C27 (../C27/pl_kit.h): every invocation of stage k does
//   ++inflight[k]; check(inflight[k] <= limit[k]); <other queued tasks may run here>; --inflight[k]
// so two invocations are concurrent iff their lifetimes overlap.  VF_OVERLAP=k makes the instance
// also demonstrate (witness) that stage k really reaches two overlapping invocations.
#define VF_CHK_LIMIT 1
#include "../C27/pl_kit.h"

using namespace plkit;

extern "C" void vf_main() {
  {
    dispenso::ThreadPool pool(VF_POOL_N);
    Scenario sc(pool);
    callPipeline(pool);
    vf_check(g_in[0] == 0 && g_in[1] == 0 && g_in[2] == 0 && g_in[3] == 0, "in-flight accounting of the harness is balanced");
    sc.restore(pool);
    vf_reach("pipeline() returned");
  }
  vf_reach("end");
}
