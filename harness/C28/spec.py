import os, importlib.util
_p = os.path.join(os.path.dirname(os.path.abspath(__file__)), '..', 'C27', 'spec.py')
_sp = importlib.util.spec_from_file_location('spec_C27_shared', _p)
_m = importlib.util.module_from_spec(_sp)
_sp.loader.exec_module(_m)

TECHNIQUE = _m.TECHNIQUE
ASSUMPTIONS = _m.ASSUMPTIONS
OUTSIDE = _m.OUTSIDE + ('; a limit larger than 2 needs more than 3 overlapping threads to be exceeded: limits 1, 2 and unlimited only')


def lim(name, *a, overlap=None, **kw):
    extra = dict(kw.pop('extra', {}) or {})
    if overlap is not None:
        extra['VF_OVERLAP'] = overlap
    d = _m.pl(name, *a, src='limit.cpp', extra=extra, **kw)
    if overlap is not None:
        d['bounds'] += '; the witness run also shows two overlapping invocations of stage %d' % overlap
    return d


_Q = ('quick', 'thorough')
INSTANCES = [
    # serial sink fed by a serial generator: worker and caller both run sink tasks
    lim('g_s_p1', 1, 1, tiers=_Q),
    lim('g_s_p2', 2, 1, tiers=_Q),
    # stage(f, 2) in the middle on a 2-thread pool: 3 threads could overlap, at most 2 may
    lim('g_x2_s_p2', 2, 2, l1=2, depth=2, overlap=1, tiers=_Q),
    # generator with limit 2 on a 2-thread pool (two generator tasks) feeding a serial sink
    lim('g2_s_p2', 2, 1, gl=2, depth=2, tiers=_Q),
    # overloaded pool: stages run inline inside their predecessors
    lim('g_x_s_p1_c2', 1, 2, ctx=2, tiers=_Q),
]
