import os, importlib.util
_p = os.path.join(os.path.dirname(os.path.abspath(__file__)), '..', 'C27', 'spec.py')
_sp = importlib.util.spec_from_file_location('spec_C27_shared', _p)
_m = importlib.util.module_from_spec(_sp)
_sp.loader.exec_module(_m)

TECHNIQUE = _m.TECHNIQUE
ASSUMPTIONS = _m.ASSUMPTIONS
OUTSIDE = _m.OUTSIDE + ('; a limit larger than 2 needs more than 3 overlapping threads to be exceeded: limits 1, 2 and unlimited only')


def lim(name, *a, overlap=None, **kw):
    extra = dict(kw.pop('extra', {}) or {})
    if overlap is not None:
        extra['VF_OVERLAP'] = overlap
    d = _m.pl(name, *a, src='limit.cpp', extra=extra, **kw)
    if overlap is not None:
        d['bounds'] += '; the witness run also shows two overlapping invocations of stage %d' % overlap
    return d


_Q = ('quick', 'thorough')
_T = ('thorough',)
INSTANCES = [
    # serial sink fed by a serial generator: worker and caller both run sink tasks
    lim('g_s_p1', 1, 1, tiers=_Q),
    lim('g_s_p2', 2, 1, tiers=_Q),
    # stage(f, 2) in the middle on a 2-thread pool; witness shows two overlapping invocations
    lim('g_x2_s_p2', 2, 2, l1=2, depth=2, overlap=1, tiers=_Q),
    # overloaded pool: stages run inline inside their predecessors
    lim('g_x_s_p1_c2', 1, 2, ctx=2, tiers=_Q),
    # thorough
    lim('g2_s_p2', 2, 1, gl=2, depth=2, tiers=_T, timeout=3000),       # generator limit 2 (two generator tasks), 352 paths
    lim('g_x2_s_p2_i3', 2, 2, l1=2, items=3, pq=6, mq=3, unwind=5, tiers=_T, timeout=3000),  # 3 items x 3 threads: limit 2 can be exceeded
    lim('g_x_x_s_p2', 2, 3, tiers=_T, timeout=3000),                   # three serial stages on 2 threads
    lim('g_xu_s_p2', 2, 2, l1=99, tiers=_T, timeout=3000),             # unlimited stage never fails the check; serial sink behind it
    lim('g_s_p2_any', 2, 1, any_=1, tiers=_T, timeout=3000),
    lim('single_p2', 2, 0, tiers=_T), lim('single2_p2', 2, 0, gl=2, overlap=0, tiers=_T),
]
