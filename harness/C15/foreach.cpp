// C15: for_each / for_each_n apply the function exactly once to each of the first n elements, for
// every iterator category, n (incl. 0), maxThreads (incl. 0, 1, default, > INT32_MAX), wait mode and
// pool size (incl. zero-thread pools); all applications have finished when the call (wait=true) or
// the task set's wait() (wait=false) returns.
//
// Real code (instantiated over the harness' MockTaskSet, which for_each_n takes as template
// parameter TaskSetT): dispenso::for_each_n, dispenso::for_each, detail::for_each_n_schedule (both the
// random-access and the boundary-vector overload) with their generator / chunk closures,
// detail::staticChunkSize, SmallVector<Iter,64>, PerPoolPerThreadInfo::{isParForRecursive,
// parForRecurse} + per_thread_info.cpp.
//
// The configuration space (pool size N, n, wait, maxThreads, caller already inside a parallel-for)
// is explored as a *tree of scenarios*: a symbolic selector picks one of the template-generated
// scenarios, each of which calls the real code with literal values (so that chunk boundaries and trip
// counts are constants for the symbolic executor).  Symbolic per scenario: per task inline-or-stored,
// order and time at which stored tasks run (see mock_taskset.h); in the *_anymt instances also
// maxThreads (full uint32_t).
// Per instance (compile time): iterator category, entry point for_each_n / for_each(first,last),
// functor passed as lvalue / rvalue, stateful / stateless functor.
#include <iterator>
#include <dispenso/for_each.h>
#include "vf.h"
#include "mock_taskset.h"

#ifndef VF_MAXN
#define VF_MAXN 6
#endif
#ifndef VF_MINN
#define VF_MINN 0
#endif
#ifndef VF_NPOOL_LO
#define VF_NPOOL_LO 0
#endif
#ifndef VF_NPOOL
#define VF_NPOOL 2
#endif
#ifndef VF_ITER
#define VF_ITER 0  // 0 pointer (random access), 1 forward, 2 bidirectional, 3 harness random-access class
#endif
#ifndef VF_ENTRY
#define VF_ENTRY 0  // 0: for_each_n(tasks, first, n, ..), 1: for_each(tasks, first, last, ..)
#endif
#ifndef VF_RVALUE
#define VF_RVALUE 0  // functor passed as lvalue (F = L&) or rvalue (F = L)
#endif
#ifndef VF_STATEFUL
#define VF_STATEFUL 0  // functor captures a pointer to its application counter (copied into every closure)
#endif
#ifndef VF_DEEP
#define VF_DEEP 0  // 1: stored tasks may also run between two element applications of another chunk
#endif
#ifndef VF_WAITSEL
#define VF_WAITSEL 2  // 0: only wait=false, 1: only wait=true, 2: both
#endif
#ifndef VF_ANYMT
#define VF_ANYMT 0  // 1: maxThreads is a symbolic uint32_t (any value) instead of one of kMT[]
#endif
#ifndef VF_MTNZ
#define VF_MTNZ 0  // 1: maxThreads != 0
#endif
#ifndef VF_ITLAYOUT
#define VF_ITLAYOUT 2
#endif
#ifndef VF_RECUR
#define VF_RECUR 0  // caller already inside a parallel-for chunk of the same pool: 0 never, 1 both, 2 always
#endif

using Elem = uint8_t;  // ghost: number of applications of the functor to this element

constexpr int kLen = VF_MAXN + 1;  // one element beyond the largest n: must never be touched
static Elem g_cnt[kLen + 1];
static int g_applied;  // ghost: total number of functor applications
static MockTaskSet* g_ts;

// Harness iterators are index based: the value the library copies into its boundary vector and task
// closures is a small integer, not a pointer.
template <typename Tag>
struct IdxIt {
  using iterator_category = Tag;
  using value_type = Elem;
  using difference_type = std::ptrdiff_t;
  using pointer = Elem*;
  using reference = Elem&;
#if VF_ITLAYOUT == 1
  // 16 bytes, index in the second word, member-wise (user-provided) copy: SmallVector<Iter,64>'s inline
  // buffer is a union with {T* ptr; size_t capacity} and clang types the union by that member, so
  // element 0 of the inline buffer overlays (ptr, capacity).  Keeping the index off the pointer-typed
  // word keeps it a plain integer for the symbolic executor; the pad word is only ever written.
  int64_t pad;
  int64_t idx;
  IdxIt() : pad(0), idx(0) {}
  IdxIt(const IdxIt& o) : pad(0), idx(o.idx) {}
  IdxIt& operator=(const IdxIt& o) {
    idx = o.idx;
    return *this;
  }
#elif VF_ITLAYOUT == 2
  int64_t idx;
#else
  int32_t idx;
#endif
  Elem& operator*() const {
    return g_cnt[idx];
  }
  IdxIt& operator++() {
    ++idx;
    return *this;
  }
  IdxIt operator++(int) {
    IdxIt t = *this;
    ++idx;
    return t;
  }
  bool operator==(const IdxIt& o) const {
    return idx == o.idx;
  }
  bool operator!=(const IdxIt& o) const {
    return idx != o.idx;
  }
};
using FwdIt = IdxIt<std::forward_iterator_tag>;

struct BidiIt : IdxIt<std::bidirectional_iterator_tag> {
  BidiIt& operator++() {
    ++idx;
    return *this;
  }
  BidiIt operator++(int) {
    BidiIt t = *this;
    ++idx;
    return t;
  }
  BidiIt& operator--() {
    --idx;
    return *this;
  }
  BidiIt operator--(int) {
    BidiIt t = *this;
    --idx;
    return t;
  }
};

struct RandIt : IdxIt<std::random_access_iterator_tag> {
  RandIt& operator++() {
    ++idx;
    return *this;
  }
  RandIt& operator--() {
    --idx;
    return *this;
  }
  RandIt& operator+=(std::ptrdiff_t d) {
    idx += (decltype(idx))d;
    return *this;
  }
  RandIt& operator-=(std::ptrdiff_t d) {
    idx -= (decltype(idx))d;
    return *this;
  }
  RandIt operator+(std::ptrdiff_t d) const {
    RandIt t = *this;
    t.idx += (decltype(idx))d;
    return t;
  }
  RandIt operator-(std::ptrdiff_t d) const {
    RandIt t = *this;
    t.idx -= (decltype(idx))d;
    return t;
  }
  std::ptrdiff_t operator-(const RandIt& o) const {
    return idx - o.idx;
  }
  Elem& operator[](std::ptrdiff_t d) const {
    return g_cnt[idx + d];
  }
  bool operator<(const RandIt& o) const {
    return idx < o.idx;
  }
};

#if VF_ITER == 0
using It = Elem*;
static It iterAt(int i) {
  return &g_cnt[i];
}
#elif VF_ITER == 1
using It = FwdIt;
static It iterAt(int i) {
  It it;
  it.idx = i;
  return it;
}
#elif VF_ITER == 2
using It = BidiIt;
static It iterAt(int i) {
  It it;
  it.idx = i;
  return it;
}
#else
using It = RandIt;
static It iterAt(int i) {
  It it;
  it.idx = i;
  return it;
}
#endif

VF_NOINLINE static void runConfig(uint32_t N, bool wait, uint32_t n, uint32_t maxThreads, bool recur) {
  for (int i = 0; i <= kLen; ++i) {
    g_cnt[i] = 0;
  }
  MockTaskSet ts(static_cast<ssize_t>(N));
  g_ts = &ts;
  g_applied = 0;
#if VF_STATEFUL
  // stateful functor (captures a pointer that the library copies into every task closure)
  int* applied = &g_applied;
  auto f = [applied](Elem& e) {
#if VF_DEEP
    g_ts->pickupInFunctor();
#endif
    ++e;
    ++*applied;
  };
#else
  auto f = [](Elem& e) {
#if VF_DEEP
    g_ts->pickupInFunctor();
#endif
    ++e;
    ++g_applied;
  };
#endif

  dispenso::ForEachOptions opts;
  opts.maxThreads = maxThreads;
  opts.wait = wait;

  {
    // recur: the caller is itself a chunk of an enclosing parallel-for on the same pool (what the
    // library's own chunk closures establish through parForRecurse()) => serial execution expected
    // (fields set one by one: registerPool's stores are merged by the compiler into a memset over the
    // pointer fields, which the symbolic executor has to treat byte-wise)
    dispenso::detail::PerThreadInfo& info = dispenso::detail::PerPoolPerThreadInfo::info();
    if (recur) {
      info.pool = &ts.pool();
      info.parForRecursionLevel = 1;
    }

#if VF_ENTRY == 1 && VF_RVALUE == 1
    dispenso::for_each(ts, iterAt(0), iterAt((int)n), std::move(f), opts);
#elif VF_ENTRY == 1
    dispenso::for_each(ts, iterAt(0), iterAt((int)n), f, opts);
#elif VF_RVALUE == 1
    dispenso::for_each_n(ts, iterAt(0), n, std::move(f), opts);
#else
    dispenso::for_each_n(ts, iterAt(0), n, f, opts);
#endif
    if (recur) {
      info.pool = nullptr;
      info.parForRecursionLevel = 0;
    }
  }

  if (maxThreads <= 1) {
    // documented: "Setting maxThreads to zero or one will result in serial operation"
    vf_check(g_stored == 0 || !wait, "serial operation: with wait=true nothing is left to other threads");
  }
  if (!wait) {
    if (ts.numPending() > 0) {
      vf_reach("wait=false: call returned with chunks still queued");
    }
    for (int i = 0; i <= kLen; ++i) {
      vf_check(g_cnt[i] <= 1, "wait=false: no element has been applied more than once at return");
    }
    ts.wait();
  } else {
    vf_check(ts.numPending() == 0, "wait=true: no task of the call is still pending when it returns");
    if (g_stored > 0) {
      vf_reach("wait=true: chunks were queued and ran on other threads");
    }
  }
  for (int i = 0; i <= kLen; ++i) {
    vf_check(i >= (int)n || g_cnt[i] == 1, "each of the first n elements is applied exactly once");
  }
  for (int i = 0; i <= kLen; ++i) {
    vf_check(i < (int)n || g_cnt[i] == 0, "no element beyond the first n is touched");
  }
  vf_check(g_applied == (int)n, "the functor ran n times in total");
  vf_check(g_executed == g_scheduled, "every closure handed to the task set ran exactly once");
  g_ts = nullptr;
}

// ---- scenario tree ---------------------------------------------------------------------------
constexpr uint32_t kMT[] = {0u, 1u, 2u, 0x7fffffffu, 0xffffffffu};
#if VF_ANYMT
constexpr int kNumMT = 1;
constexpr int kMT0 = 0;
#else
constexpr int kMT0 = VF_MTNZ ? 1 : 0;  // VF_MTNZ: only the non-zero values
constexpr int kNumMT = 5 - kMT0;
#endif
constexpr int kNumN = VF_MAXN - VF_MINN + 1;
constexpr int kNumPool = VF_NPOOL - VF_NPOOL_LO + 1;
constexpr int kNumWait = VF_WAITSEL == 2 ? 2 : 1;
constexpr int kNumRecur = VF_RECUR == 1 ? 2 : 1;
constexpr int kTotal = kNumN * kNumPool * kNumWait * kNumMT * kNumRecur;

template <int K>
static inline void scenario(uint32_t anyMT) {
  constexpr int n = VF_MINN + K % kNumN;
  constexpr int k1 = K / kNumN;
  constexpr int N = VF_NPOOL_LO + k1 % kNumPool;
  constexpr int k2 = k1 / kNumPool;
  constexpr bool wait = VF_WAITSEL == 2 ? (k2 % kNumWait) == 1 : VF_WAITSEL == 1;
  constexpr int k3 = k2 / kNumWait;
  constexpr int mt = kMT0 + k3 % kNumMT;
  constexpr int k4 = k3 / kNumMT;
  constexpr bool recur = VF_RECUR == 2 || k4 == 1;
  runConfig((uint32_t)N, wait, (uint32_t)n, VF_ANYMT ? anyMT : kMT[mt], recur);
}

// balanced selector tree (noinline nodes, so that the compiler cannot flatten it into one switch): the
// path guard of a scenario is a conjunction of ~log2(kTotal) comparisons rather than of kTotal
template <int Lo, int Hi>
struct Tree {
  VF_NOINLINE static void go(uint32_t sel, uint32_t anyMT) {
    constexpr int Mid = Lo + (Hi - Lo) / 2;
    if (sel <= (uint32_t)Mid) {
      Tree<Lo, Mid>::go(sel, anyMT);
    } else {
      Tree<Mid + 1, Hi>::go(sel, anyMT);
    }
  }
};
template <int K>
struct Tree<K, K> {
  VF_NOINLINE static void go(uint32_t, uint32_t anyMT) {
    scenario<K>(anyMT);
  }
};

extern "C" void vf_main() {
  uint32_t sel = vf_range_u32(0, kTotal - 1);
  uint32_t anyMT = 0;
#if VF_ANYMT
  anyMT = vf_nondet_u32();
#if VF_MTNZ
  vf_assume(anyMT != 0);
#endif
#endif
  Tree<0, kTotal - 1>::go(sel, anyMT);
}
