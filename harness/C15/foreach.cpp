// C15: for_each / for_each_n apply the function exactly once to each of the first n elements, for
// every iterator category, n (incl. 0), maxThreads (incl. 0, 1, default, > INT32_MAX), wait mode and
// pool size (incl. zero-thread pools); all applications have finished when the call (wait=true) or
// the task set's wait() (wait=false) returns.
//
// Real code (instantiated over the harness' MockTaskSet, which for_each_n takes as template
// parameter TaskSetT): dispenso::for_each_n, dispenso::for_each, detail::for_each_n_schedule (both the
// random-access and the boundary-vector overload) with their generator / chunk closures,
// detail::staticChunkSize, SmallVector<Iter,64>, PerPoolPerThreadInfo::{isParForRecursive,
// parForRecurse} + per_thread_info.cpp.
//
// Symbolic: n, pool size, ForEachOptions{maxThreads (full uint32_t), wait},
// per task inline-or-stored, order and time at which stored tasks run (see mock_taskset.h).
// Per instance (compile time): iterator category, entry point for_each_n / for_each(first,last),
// functor passed as lvalue / rvalue.
#include <iterator>
#include <dispenso/for_each.h>
#include "vf.h"
#include "mock_taskset.h"

#ifndef VF_MAXN
#define VF_MAXN 6
#endif
#ifndef VF_NPOOL
#define VF_NPOOL 2
#endif
#ifndef VF_ITER
#define VF_ITER 0  // 0 pointer (random access), 1 forward, 2 bidirectional
#endif
#ifndef VF_REGION
#define VF_REGION 0  // 0: every configuration except (zero-thread pool, wait=false, parallel path); 1: only that one
#endif
#ifndef VF_ENTRY
#define VF_ENTRY 0  // 0: for_each_n(tasks, first, n, ..), 1: for_each(tasks, first, last, ..)
#endif
#ifndef VF_RVALUE
#define VF_RVALUE 0  // functor passed as lvalue (F = L&) or rvalue (F = L)
#endif
#ifndef VF_DEEP
#define VF_DEEP 0  // 1: stored tasks may also run between two element applications of another task
#endif

struct Elem {
  uint8_t cnt;  // ghost: number of applications of the functor to this element
};

constexpr int kLen = VF_MAXN + 1;  // one element beyond the largest n: must never be touched

// The list iterators are index-linked (slot -> next/prev slot tables) rather than pointer-linked: the
// iterator value the library copies into its boundary vector and task closures is then a plain
// integer, which keeps the lifted C typed (no pointer <-> integer laundering through byte buffers).
constexpr int kEnd = kLen;  // sentinel slot == end() of the full list
static Elem g_elems[kLen + 1];
static uint8_t g_next[kLen + 1];
static uint8_t g_prev[kLen + 1];

struct FwdIt {
  using iterator_category = std::forward_iterator_tag;
  using value_type = Elem;
  using difference_type = std::ptrdiff_t;
  using pointer = Elem*;
  using reference = Elem&;
  int32_t slot;
  Elem& operator*() const {
    return g_elems[slot];
  }
  FwdIt& operator++() {
    slot = g_next[slot];
    return *this;
  }
  FwdIt operator++(int) {
    FwdIt t = *this;
    slot = g_next[slot];
    return t;
  }
  bool operator==(const FwdIt& o) const {
    return slot == o.slot;
  }
  bool operator!=(const FwdIt& o) const {
    return slot != o.slot;
  }
};

struct BidiIt {
  using iterator_category = std::bidirectional_iterator_tag;
  using value_type = Elem;
  using difference_type = std::ptrdiff_t;
  using pointer = Elem*;
  using reference = Elem&;
  int32_t slot;
  Elem& operator*() const {
    return g_elems[slot];
  }
  BidiIt& operator++() {
    slot = g_next[slot];
    return *this;
  }
  BidiIt operator++(int) {
    BidiIt t = *this;
    slot = g_next[slot];
    return t;
  }
  BidiIt& operator--() {
    slot = g_prev[slot];
    return *this;
  }
  BidiIt operator--(int) {
    BidiIt t = *this;
    slot = g_prev[slot];
    return t;
  }
  bool operator==(const BidiIt& o) const {
    return slot == o.slot;
  }
  bool operator!=(const BidiIt& o) const {
    return slot != o.slot;
  }
};

static MockTaskSet* g_ts;
static int g_applied;  // ghost: total number of functor applications
static Elem g_arr[kLen];

// logical position i of the list lives in slot kLen - 1 - i (not in memory order); position kLen is
// the sentinel slot kEnd
static int slotAt(int i) {
  return i >= kLen ? kEnd : kLen - 1 - i;
}
static void buildList() {
  for (int i = 0; i <= kLen; ++i) {
    int sl = slotAt(i);
    g_elems[sl].cnt = 0;
    g_next[sl] = (uint8_t)(i < kLen ? slotAt(i + 1) : kEnd);
    g_prev[sl] = (uint8_t)(i > 0 ? slotAt(i - 1) : kEnd);
  }
}

#if VF_ITER == 0
using It = Elem*;
static It iterAt(int i) {
  return &g_arr[i];
}
static uint8_t countAt(int i) {
  return g_arr[i].cnt;
}
#else
#if VF_ITER == 1
using It = FwdIt;
#else
using It = BidiIt;
#endif
static It iterAt(int i) {
  return It{slotAt(i)};
}
static uint8_t countAt(int i) {
  return g_elems[slotAt(i)].cnt;
}
#endif

VF_NOINLINE static void runConfig(uint32_t N, bool wait, uint32_t n, uint32_t maxThreads) {
  for (int i = 0; i < kLen; ++i) {
    g_arr[i].cnt = 0;
  }
  buildList();

  MockTaskSet ts(static_cast<ssize_t>(N));
  g_ts = &ts;
  g_applied = 0;
#if VF_ITER == 0
  // stateful functor (captures a pointer that the library copies into every task closure)
  int* applied = &g_applied;
  auto f = [applied](Elem& e) {
#if VF_DEEP
    g_ts->pickupInFunctor();
#endif
    ++e.cnt;
    ++*applied;
  };
#else
  // stateless functor: the task closures of the list instances then hold integers only (a pointer
  // copied through the closure's byte representation makes every later store through it a store to
  // "any object" in the lifted C, which is what made these instances run out of memory)
  auto f = [](Elem& e) {
#if VF_DEEP
    g_ts->pickupInFunctor();
#endif
    ++e.cnt;
    ++g_applied;
  };
#endif

  dispenso::ForEachOptions opts;
  opts.maxThreads = maxThreads;
  opts.wait = wait;

#if VF_ENTRY == 1 && VF_RVALUE == 1
  dispenso::for_each(ts, iterAt(0), iterAt((int)n), std::move(f), opts);
#elif VF_ENTRY == 1
  dispenso::for_each(ts, iterAt(0), iterAt((int)n), f, opts);
#elif VF_RVALUE == 1
  dispenso::for_each_n(ts, iterAt(0), n, std::move(f), opts);
#else
  dispenso::for_each_n(ts, iterAt(0), n, f, opts);
#endif

  if (!wait) {
    // nothing may have been applied twice so far; the rest finishes in the set's wait()
    for (int i = 0; i < kLen; ++i) {
      vf_check(countAt(i) <= 1, "wait=false: no element has been applied more than once at return");
    }
    ts.wait();
  } else {
    vf_check(ts.nq == 0, "wait=true: no task of the call is still pending when it returns");
  }
  for (int i = 0; i < kLen; ++i) {
    if (i < (int)n) {
      vf_check(countAt(i) == 1, "each of the first n elements is applied exactly once");
    } else {
      vf_check(countAt(i) == 0, "no element beyond the first n is touched");
    }
  }
  vf_check(g_applied == (int)n, "the functor ran n times in total");
  vf_check(ts.executed == ts.scheduled, "every closure handed to the task set ran exactly once");
  g_ts = nullptr;
}

extern "C" void vf_main() {
  uint32_t N = vf_range_u32(0, VF_NPOOL);
  uint32_t n = vf_range_u32(0, VF_MAXN);
  bool wait = vf_nondet_bool();
  uint32_t maxThreads = vf_nondet_u32();
  // for_each.h:188-192: numThreads = min(N + wait, max(int32(maxThreads), 1), n)
  bool zeroPoolNoWait = N == 0 && !wait && n > 0 && maxThreads != 0;
#if VF_REGION == 0
  vf_assume(!zeroPoolNoWait);
#else
  vf_assume(zeroPoolNoWait);
#endif
  runConfig(N, wait, n, maxThreads);
}
