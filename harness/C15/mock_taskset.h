// Mock task set for C15: provides exactly the surface dispenso::for_each_n uses on its TaskSetT
// template parameter -- pool(), numPoolThreads(), scheduleBulk(count, gen), wait() -- plus the
// schedule() overloads of the real sets.  It plays scheduler at *task granularity*:
//  * a scheduled closure is either run inline on the caller (what the real sets do under load / on
//    zero-thread pools) or stored (symbolic choice per task; ForceQueuingTag always stores);
//  * stored closures are run in a symbolically chosen order, at symbolically chosen points: one may be
//    picked up by a pool thread (only when the mock pool has >= 1 thread) at the start of every later
//    schedule() and -- VF_DEEP, through pickupInFunctor() called from the element functor -- between
//    two element applications of another chunk; all remaining ones run inside wait() in a
//    symbolically chosen order;
//  * like the real scheduleBulk, gen(i) is evaluated once for every i in [0, count) before
//    scheduleBulk returns.
// Storage is *typed and indexed by task number* (the k-th closure handed to the set lives in
// Slots<C>::obj[k], with a symbolic pending flag): every closure pointer, and therefore every chunk
// boundary and loop trip count inside a closure, stays a constant for the symbolic executor; only
// the decisions (inline/stored, who runs when) are symbolic.
#pragma once
#include <cstddef>
#include <new>
#include <utility>
#include <dispenso/thread_pool.h>  // ForceQueuingTag
#include "vf.h"

#ifndef VF_MAXTASKS
#define VF_MAXTASKS 3
#endif

struct MockPool {
  int unused;
};

// Heap holder of a stored closure.  The leading tag gives the allocation a typed first use (the lifter
// types a heap block by the first cast of the pointer), so the closure's members are typed fields
// rather than bytes of an anonymous buffer.
template <typename C>
struct Holder {
  int tag;
  C c;
};

template <typename C>
struct Slots {
  static Holder<C>* obj[VF_MAXTASKS];
  static void run(int k) {
    Holder<C>* h = obj[k];  // (not reset: a guarded reset would turn the slot into a symbolic pointer)
    h->c();
    // destroyed, storage deliberately not freed: a free under a symbolic guard (inline now / later in
    // wait()) makes the liveness of every closure object symbolic for all later accesses
    h->c.~C();
  }
};
template <typename C>
Holder<C>* Slots<C>::obj[VF_MAXTASKS];

// ghost (separate global objects rather than adjacent members: the compiler turns the zeroing of
// adjacent members into one memset, which the symbolic executor applies byte-wise to the whole struct)
static int g_scheduled;     // closures handed to the set
static int g_executed;      // closures run to completion
static int g_stored;        // closures that were queued rather than run inline
static int g_waits;         // wait() calls
static int g_depth;         // nesting of task execution
static int g_applications;  // element applications so far (VF_DEEP)

struct MockTaskSet {
  bool pending[VF_MAXTASKS];
  void (*runSlot)(int) = nullptr;  // Slots<C>::run of the (single) closure type scheduled on this set
  ssize_t nthreads = 0;
  MockPool pool_;
  // scheduling decisions, all drawn up front (a fixed number of inputs per scenario keeps the
  // runtime's input log indices constant)
  bool chInline[VF_MAXTASKS];    // task k runs inline in schedule()
  bool chPickup[VF_MAXTASKS];    // a pool thread picks up a stored task at the start of the k-th schedule()
  uint8_t chWhich[VF_MAXTASKS];  // ... which one
  uint8_t chOrder[VF_MAXTASKS];  // wait(): which pending task runs in round r
  uint8_t chDeepAt;              // VF_DEEP: pick-up before the chDeepAt-th element application ...
  uint8_t chDeepWhich;           // ... of this stored task
  explicit MockTaskSet(ssize_t n) : nthreads(n) {
    g_scheduled = 0;
    g_executed = 0;
    g_stored = 0;
    g_waits = 0;
    g_depth = 0;
    g_applications = 0;
    for (int i = 0; i < VF_MAXTASKS; ++i) {
      pending[i] = false;
      chInline[i] = vf_nondet_bool();
      chPickup[i] = vf_nondet_bool();
      chWhich[i] = vf_range_u8(0, VF_MAXTASKS - 1);
      chOrder[i] = vf_range_u8(0, VF_MAXTASKS - 1);
    }
    chDeepAt = vf_nondet_u8();
    chDeepWhich = vf_range_u8(0, VF_MAXTASKS - 1);
  }

  MockPool& pool() {
    return pool_;
  }
  ssize_t numPoolThreads() const {
    return nthreads;
  }

  int numPending() const {
    int c = 0;
    for (int i = 0; i < VF_MAXTASKS; ++i) {
      c += pending[i] ? 1 : 0;
    }
    return c;
  }

  void runTask(int i) {
    pending[i] = false;
    ++g_depth;
    runSlot(i);
    --g_depth;
    ++g_executed;
  }

  // run stored closure k if it is pending (no-op otherwise)
  void runPick(uint32_t k) {
    for (int i = 0; i < VF_MAXTASKS; ++i) {
      if ((uint32_t)i == k && pending[i]) {
        runTask(i);
      }
    }
  }

  // called by the harness' element functor (VF_DEEP): a pool thread may run one stored closure between
  // two element g_applications of a chunk that is executing (only pools with >= 1 thread)
  void pickupInFunctor() {
    int a = g_applications++;
    if (nthreads > 0 && g_depth <= 1 && a == (int)chDeepAt) {
      runPick(chDeepWhich);
    }
  }

  // first half of a schedule: pool-thread pick-up point, slot number
  template <typename C>
  int admit() {
    int k = g_scheduled;
    vf_check(k < VF_MAXTASKS, "harness bound: more closures scheduled than VF_MAXTASKS");
    if (k >= VF_MAXTASKS) {
      return -1;
    }
    // a pool thread may pick up one stored closure now (only pools with >= 1 thread have such a thread)
    if (nthreads > 0 && g_depth == 0 && k > 0 && chPickup[k]) {
      runPick(chWhich[k]);
    }
    vf_check(runSlot == nullptr || runSlot == &Slots<C>::run, "harness bound: one closure type per task set");
    runSlot = &Slots<C>::run;
    ++g_scheduled;
    return k;
  }
  // second half: run inline now or leave it queued
  void dispatch(int k, bool mayInline) {
    if (mayInline && chInline[k]) {
      runTask(k);
    } else {
      pending[k] = true;
      ++g_stored;
    }
  }

  template <typename F>
  void scheduleImpl(F&& f, bool mayInline) {
    using C = typename std::decay<F>::type;
    int k = admit<C>();
    if (k < 0) {
      return;
    }
    Slots<C>::obj[k] = new Holder<C>{k, std::forward<F>(f)};
    dispatch(k, mayInline);
  }

  template <typename F>
  void schedule(F&& f) {
    scheduleImpl(std::forward<F>(f), true);
  }

  template <typename F>
  void schedule(F&& f, dispenso::ForceQueuingTag) {
    scheduleImpl(std::forward<F>(f), false);
  }

  // gen(i) is evaluated once for every i in [0, count), in increasing order; the closure it returns is
  // constructed directly in its holder (no intermediate copy)
  template <typename Generator>
  void scheduleBulkImpl(size_t count, Generator&& gen, bool mayInline) {
    using C = typename std::decay<decltype(gen(size_t{0}))>::type;
    for (size_t i = 0; i < count; ++i) {
      int k = admit<C>();
      if (k < 0) {
        return;
      }
      Slots<C>::obj[k] = new Holder<C>{k, gen(i)};
      dispatch(k, mayInline);
    }
  }

  template <typename Generator>
  void scheduleBulk(size_t count, Generator&& gen) {
    scheduleBulkImpl(count, std::forward<Generator>(gen), true);
  }

  template <typename Generator>
  void scheduleBulk(size_t count, Generator&& gen, dispenso::ForceQueuingTag) {
    scheduleBulkImpl(count, std::forward<Generator>(gen), false);
  }

  bool wait() {
    ++g_waits;
    // drain: every round runs one of the still pending closures, symbolic choice
    for (int r = 0; r < VF_MAXTASKS; ++r) {
      uint32_t k = chOrder[r];
      vf_assume(numPending() == 0 || pending[k]);
      runPick(k);
    }
    return false;
  }
};
