// Mock task set for C15: provides exactly the surface dispenso::for_each_n uses on its TaskSetT
// template parameter -- pool(), numPoolThreads(), scheduleBulk(count, gen), wait() -- plus the
// schedule() overloads of the real sets.  It plays scheduler at *task granularity*:
//  * a scheduled closure is either run inline on the caller (what the real sets do under load / on
//    zero-thread pools) or stored (symbolic choice per task; ForceQueuingTag always stores);
//  * stored closures are run in a symbolically chosen order, at symbolically chosen points: one may be
//    picked up by a pool thread (only when the mock pool has >= 1 thread) at the start of every later
//    schedule() and -- VF_DEEP, through pickupInFunctor() called from the element functor -- between
//    two element applications of another chunk; all remaining ones run inside wait() in a
//    symbolically chosen order;
//  * like the real scheduleBulk, gen(i) is evaluated once for every i in [0, count) before
//    scheduleBulk returns.
// Storage is *typed and indexed by task number* (the k-th closure handed to the set lives in
// Slots<C>::obj[k], with a symbolic pending flag): every closure pointer, and therefore every chunk
// boundary and loop trip count inside a closure, stays a constant for the symbolic executor; only
// the decisions (inline/stored, who runs when) are symbolic.
#pragma once
#include <cstddef>
#include <new>
#include <utility>
#include <dispenso/thread_pool.h>  // ForceQueuingTag
#include "vf.h"

#ifndef VF_MAXTASKS
#define VF_MAXTASKS 3
#endif

struct MockPool {
  int unused;
};

template <typename C>
struct Slots {
  static C* obj[VF_MAXTASKS];
  static void run(int k) {
    C* c = obj[k];  // (not reset: a guarded reset would turn the slot into a symbolic pointer)
    (*c)();
    // destroyed, storage deliberately not freed: a free under a symbolic guard (inline now / later in
    // wait()) makes the liveness of every closure object symbolic for all later accesses
    c->~C();
  }
};
template <typename C>
C* Slots<C>::obj[VF_MAXTASKS];

static int g_scheduled, g_executed, g_stored, g_waits, g_depth, g_applications;

struct MockTaskSet {
  bool pending[VF_MAXTASKS];
  void (*runSlot)(int) = nullptr;  // Slots<C>::run of the (single) closure type scheduled on this set
  ssize_t nthreads = 0;
  MockPool pool_;
  // scheduling decisions, all drawn up front (a fixed number of inputs per scenario keeps the
  // runtime's input log indices constant)
  bool chInline[VF_MAXTASKS];    // task k runs inline in schedule()
  bool chPickup[VF_MAXTASKS];    // a pool thread picks up a stored task at the start of the k-th schedule()
  uint8_t chWhich[VF_MAXTASKS];  // ... which one
  uint8_t chOrder[VF_MAXTASKS];  // wait(): which pending task runs in round r
  uint8_t chDeepAt;              // VF_DEEP: pick-up before the chDeepAt-th element application ...
  uint8_t chDeepWhich;           // ... of this stored task
  // ghost (separate objects rather than adjacent members: the compiler turns the zeroing of adjacent
  // members into one memset, which the symbolic executor applies byte-wise to the whole struct)
  int& scheduled = g_scheduled;        // closures handed to the set
  int& executed = g_executed;          // closures run to completion
  int& stored = g_stored;              // closures that were queued rather than run inline
  int& waits = g_waits;                // wait() calls
  int& depth = g_depth;                // nesting of task execution
  int& applications = g_applications;  // element applications so far (VF_DEEP)

  explicit MockTaskSet(ssize_t n) : nthreads(n) {
    scheduled = 0;
    executed = 0;
    stored = 0;
    waits = 0;
    depth = 0;
    applications = 0;
    for (int i = 0; i < VF_MAXTASKS; ++i) {
      pending[i] = false;
      chInline[i] = vf_nondet_bool();
      chPickup[i] = vf_nondet_bool();
      chWhich[i] = vf_range_u8(0, VF_MAXTASKS - 1);
      chOrder[i] = vf_range_u8(0, VF_MAXTASKS - 1);
    }
    chDeepAt = vf_nondet_u8();
    chDeepWhich = vf_range_u8(0, VF_MAXTASKS - 1);
  }

  MockPool& pool() {
    return pool_;
  }
  ssize_t numPoolThreads() const {
    return nthreads;
  }

  int numPending() const {
    int c = 0;
    for (int i = 0; i < VF_MAXTASKS; ++i) {
      c += pending[i] ? 1 : 0;
    }
    return c;
  }

  void runTask(int i) {
    pending[i] = false;
    ++depth;
    runSlot(i);
    --depth;
    ++executed;
  }

  // run stored closure k if it is pending (no-op otherwise)
  void runPick(uint32_t k) {
    for (int i = 0; i < VF_MAXTASKS; ++i) {
      if ((uint32_t)i == k && pending[i]) {
        runTask(i);
      }
    }
  }

  // called by the harness' element functor (VF_DEEP): a pool thread may run one stored closure between
  // two element applications of a chunk that is executing (only pools with >= 1 thread)
  void pickupInFunctor() {
    int a = applications++;
    if (nthreads > 0 && depth <= 1 && a == (int)chDeepAt) {
      runPick(chDeepWhich);
    }
  }

  template <typename F>
  void scheduleImpl(F&& f, bool mayInline) {
    using C = typename std::decay<F>::type;
    int k = scheduled;
    vf_check(k < VF_MAXTASKS, "harness bound: more closures scheduled than VF_MAXTASKS");
    if (k >= VF_MAXTASKS) {
      return;
    }
    // a pool thread may pick up one stored closure now (only pools with >= 1 thread have such a thread)
    if (nthreads > 0 && depth == 0 && k > 0 && chPickup[k]) {
      runPick(chWhich[k]);
    }
    vf_check(runSlot == nullptr || runSlot == &Slots<C>::run, "harness bound: one closure type per task set");
    runSlot = &Slots<C>::run;
    ++scheduled;
    Slots<C>::obj[k] = new C(std::forward<F>(f));
    if (mayInline && chInline[k]) {
      runTask(k);
    } else {
      pending[k] = true;
      ++stored;
    }
  }

  template <typename F>
  void schedule(F&& f) {
    scheduleImpl(std::forward<F>(f), true);
  }

  template <typename F>
  void schedule(F&& f, dispenso::ForceQueuingTag) {
    scheduleImpl(std::forward<F>(f), false);
  }

  template <typename Generator>
  void scheduleBulk(size_t count, Generator&& gen) {
    for (size_t i = 0; i < count; ++i) {
      schedule(gen(i));
    }
  }

  template <typename Generator>
  void scheduleBulk(size_t count, Generator&& gen, dispenso::ForceQueuingTag fq) {
    for (size_t i = 0; i < count; ++i) {
      schedule(gen(i), fq);
    }
  }

  bool wait() {
    ++waits;
    // drain: every round runs one of the still pending closures, symbolic choice
    for (int r = 0; r < VF_MAXTASKS; ++r) {
      uint32_t k = chOrder[r];
      vf_assume(numPending() == 0 || pending[k]);
      runPick(k);
    }
    return false;
  }
};
