// Mock task set for C15: provides exactly the surface dispenso::for_each_n uses on its TaskSetT
// template parameter -- pool(), numPoolThreads(), scheduleBulk(count, gen), wait() -- plus the
// schedule() overloads of the real sets.  It plays scheduler at *task granularity*:
//  * a scheduled closure is either run inline on the caller (what the real sets do under load) or
//    stored (symbolic choice per task; ForceQueuingTag always stores);
//  * stored closures are run in a symbolically chosen order, at symbolically chosen points: one may be
//    picked up by a pool thread (only when the mock pool has >= 1 thread) at the start of every
//    schedule() and -- VF_DEEP, through pickupInFunctor() called from the element functor -- between
//    two element applications of the caller's own chunk; all remaining ones run inside wait().
//  * like the real scheduleBulk, gen(i) is evaluated for increasing i before scheduleBulk returns.
#pragma once
#include <cstddef>
#include <new>
#include <utility>
#include <dispenso/thread_pool.h>  // ForceQueuingTag
#include "vf.h"

#ifndef VF_MAXTASKS
#define VF_MAXTASKS 4
#endif

struct MockPool {
  int unused;
};

struct MockTaskSet {
  // stored closures (type erased): scalar arrays, so that a symbolically indexed access stays a typed
  // array access in the lifted C
  void (*qrun[VF_MAXTASKS])(void*);
  void* qobj[VF_MAXTASKS];
  int nq = 0;
  ssize_t nthreads = 0;
  MockPool pool_;
  // ghost
  int scheduled = 0;   // closures handed to the set
  int executed = 0;    // closures run to completion
  int waits = 0;       // wait() calls
  int depth = 0;       // nesting of task execution (spontaneous runs are taken at depth <= 1 only)

  explicit MockTaskSet(ssize_t n) : nthreads(n) {}

  MockPool& pool() {
    return pool_;
  }
  ssize_t numPoolThreads() const {
    return nthreads;
  }

  template <typename C>
  static void trampoline(void* p) {
    C* c = static_cast<C*>(p);
    (*c)();
    delete c;
  }

  template <typename F>
  void store(F&& f) {
    using C = typename std::decay<F>::type;
    vf_check(nq < VF_MAXTASKS, "harness bound: more stored tasks than VF_MAXTASKS");
    if (nq >= VF_MAXTASKS) {
      return;
    }
    qrun[nq] = &trampoline<C>;
    qobj[nq] = new C(std::forward<F>(f));
    ++nq;
  }

  void runOne() {
    // symbolic choice of which stored closure runs next
    uint32_t k = vf_range_u32(0, VF_MAXTASKS - 1);
    vf_assume((int)k < nq);
    void (*run)(void*) = qrun[k];
    void* obj = qobj[k];
    qrun[k] = qrun[nq - 1];
    qobj[k] = qobj[nq - 1];
    --nq;
    ++depth;
    run(obj);
    --depth;
    ++executed;
  }

  // a pool thread may pick up one stored closure now (only pools with >= 1 thread have such a thread)
  void pickup() {
    if (nthreads <= 0 || depth > 0 || nq == 0) {
      return;
    }
    if (vf_nondet_bool()) {
      runOne();
    }
  }

  // called by the harness' element functor (VF_DEEP): a pool thread may run one stored closure between
  // two element applications of the caller's own chunk
  void pickupInFunctor() {
    pickup();
  }

  template <typename F>
  void schedule(F&& f) {
    pickup();
    ++scheduled;
    if (vf_nondet_bool()) {
      ++depth;
      f();
      --depth;
      ++executed;
    } else {
      store(std::forward<F>(f));
    }
  }

  template <typename F>
  void schedule(F&& f, dispenso::ForceQueuingTag) {
    pickup();
    ++scheduled;
    store(std::forward<F>(f));
  }

  template <typename Generator>
  void scheduleBulk(size_t count, Generator&& gen) {
    vf_check(count <= VF_MAXTASKS, "harness bound: scheduleBulk count exceeds VF_MAXTASKS");
    for (size_t i = 0; i < VF_MAXTASKS; ++i) {
      if (i >= count) {
        break;
      }
      schedule(gen(i));
    }
  }

  template <typename Generator>
  void scheduleBulk(size_t count, Generator&& gen, dispenso::ForceQueuingTag fq) {
    vf_check(count <= VF_MAXTASKS, "harness bound: scheduleBulk count exceeds VF_MAXTASKS");
    for (size_t i = 0; i < VF_MAXTASKS; ++i) {
      if (i >= count) {
        break;
      }
      schedule(gen(i), fq);
    }
  }

  bool wait() {
    ++waits;
    for (int i = 0; i < VF_MAXTASKS; ++i) {
      if (nq == 0) {
        break;
      }
      runOne();
    }
    vf_check(nq == 0, "harness bound: wait() drained every stored task");
    return false;
  }
};
