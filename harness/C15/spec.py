TECHNIQUE = ('bounded symbolic execution of LLVM IR lowered to C: CBMC/SAT (cadical); real for_each_n/for_each '
             'instantiated over a harness task set that plays scheduler at task granularity; configuration space '
             'explored as a tree of literal scenarios under a symbolic selector')
ASSUMPTIONS = [
    'the task set passed as TaskSetT is a harness mock with the surface for_each_n uses (pool(), numPoolThreads(), '
    'scheduleBulk(count, gen), wait()); like the real sets it evaluates gen(i) once for every i in [0,count) inside '
    'scheduleBulk and either runs the closure inline or queues it; queued closures run in any order, at any later mock '
    'entry point (pool of >= 1 thread) or inside wait()',
    'task-granularity interleaving: a closure runs to completion once started (thorough tier, *_deep instances: one other '
    'stored closure may run between two element applications); data races inside a closure are not explored',
]
OUTSIDE = ('n > 6 (quick) / 8 (thorough); pools of more than 2 (quick) / 3 (thorough) threads; maxThreads other than '
           '{0,1,2,INT32_MAX,UINT32_MAX} except in the thorough *_anymt instances (any uint32_t, n <= 3); the overloads '
           'without a task set argument (they construct a real TaskSet on the global pool and forward to the checked '
           'overload with wait=true); functors that throw; nested for_each calls from inside the functor')

_CHECKS = ['--div-by-zero-check', '--pointer-check', '--bounds-check']
_ITN = {0: 'pointer (random-access) iterators', 1: 'harness forward iterator', 2: 'harness bidirectional iterator',
        3: 'harness random-access iterator class'}
_SCHED = ('each chunk task inline or stored, stored tasks run in any order at the start of later schedule() calls (pool >= 1 '
          'thread) or in wait() (task-granularity interleaving)')


def _inst(name, it, entry, rv=0, stateful=0, tiers=('quick', 'thorough'), q=None, t=None, what='', must=True):
    d = {'VF_ITER': it, 'VF_ENTRY': entry, 'VF_RVALUE': rv, 'VF_STATEFUL': stateful}
    qd = dict(d, VF_MAXN=6, VF_MAXTASKS=3, VF_DEEP=0)
    qd.update(q or {})
    td = dict(d, VF_MAXN=8, VF_MAXTASKS=4, VF_DEEP=0)
    td.update(t if t is not None else (q or {}))
    r = {
        'name': name, 'src': 'foreach.cpp', 'engine': 'cbmc', 'defs': qd, 'tiers': list(tiers),
        'repo_sources': ['dispenso/detail/per_thread_info.cpp'],
        'unwind': 9, 'timeout': 900, 'checks': _CHECKS, 'object_bits': 13,
        'bounds': '%s, %s, functor passed as %s%s; %s' % (
            'for_each(first,last)' if entry else 'for_each_n', _ITN[it], 'rvalue' if rv else 'lvalue',
            ' (stateful: pointer capture)' if stateful else '', what),
        'thorough': {'defs': td, 'unwind': 11, 'timeout': 1700},
    }
    if must:
        r['must_reach'] = 'all'
    if it in (1, 2):
        # SmallVector<Iter,64>'s inline buffer (a byte array inside a union): element-wise SSA symbols, so that the
        # boundary iterators stored in it stay constants for the symbolic executor
        r['fs_array'] = 512
    return r


def _pool(prefix, it, entry, rv, p, tiers=('quick', 'thorough'), stateful=0, extra=None, what2=''):
    what = ('every combination of pool size %d, n 0..6 of 8 elements (thorough 0..8 of 10), maxThreads in '
            '{0,1,2,INT32_MAX,UINT32_MAX}, wait true/false%s; %s' % (p, what2, _SCHED))
    q = {'VF_NPOOL_LO': p, 'VF_NPOOL': p}
    q.update(extra or {})
    return _inst('%s_p%d' % (prefix, p), it, entry, rv=rv, stateful=stateful, tiers=tiers, q=q, what=what, must=(p > 0))


_ZP = ('only zero-thread pool, wait=false, n 1..6 (thorough 1..8), maxThreads in {1,2,INT32_MAX,UINT32_MAX}; the one chunk '
       'inline or stored until wait()')
_ZPD = {'VF_MTNZ': 1, 'VF_MINN': 1, 'VF_NPOOL': 0, 'VF_WAITSEL': 0}
_RC = ('caller already inside a parallel-for chunk of the same pool (PerPoolPerThreadInfo recursion level 1): pool size 1, '
       'n 0..6 (thorough 0..8), maxThreads in {0,1,2,INT32_MAX,UINT32_MAX}, wait true/false')
_RCD = {'VF_RECUR': 2, 'VF_NPOOL_LO': 1, 'VF_NPOOL': 1}
_ANY = ('every combination of n 0..3, pool size 0..2, wait true/false with maxThreads any uint32_t (symbolic); ' + _SCHED)
_ANYD = {'VF_ANYMT': 1, 'VF_MAXN': 3, 'VF_NPOOL': 2, 'VF_MAXTASKS': 3}
_T = ('thorough',)

INSTANCES = (
    [_pool('ptr_n', 0, 0, 0, p) for p in (0, 1, 2)] +
    [_pool('fwd_range', 1, 1, 1, p) for p in (0, 1, 2)] +
    [_pool('bidi_n', 2, 0, 1, p) for p in (0, 1, 2)] +
    [
        _inst('zero_pool_nowait_ptr', 0, 0, q=_ZPD, what=_ZP, must=False),
        _inst('zero_pool_nowait_fwd', 1, 0, q=_ZPD, what=_ZP, must=False),
        _inst('ptr_recur', 0, 0, q=_RCD, what=_RC, must=False),
        _inst('fwd_recur', 1, 1, rv=1, q=_RCD, what=_RC, must=False),
    ] +
    # thorough only: 3-thread pools, the other entry point per category, a random-access iterator class, a stateful
    # functor, pick-ups in the middle of a chunk, symbolic maxThreads
    [_pool('ptr_n', 0, 0, 0, 3, tiers=_T), _pool('fwd_range', 1, 1, 1, 3, tiers=_T), _pool('bidi_n', 2, 0, 1, 3, tiers=_T)] +
    [_pool('fwd_n', 1, 0, 0, p, tiers=_T) for p in (1, 2)] +
    [_pool('bidi_range', 2, 1, 0, p, tiers=_T) for p in (1, 2)] +
    [_pool('ptr_range', 0, 1, 1, p, tiers=_T) for p in (1, 2)] +
    [_pool('rand_n', 3, 0, 1, p, tiers=_T) for p in (1, 2)] +
    [_pool('ptr_n_stateful', 0, 0, 0, 2, tiers=_T, stateful=1)] +
    [_pool('ptr_n_deep', 0, 0, 0, p, tiers=_T, extra={'VF_DEEP': 1},
           what2='; a pool thread may also run one stored chunk between two element applications of another chunk')
     for p in (1, 2)] +
    [_pool('fwd_range_deep', 1, 1, 1, 2, tiers=_T, extra={'VF_DEEP': 1},
           what2='; a pool thread may also run one stored chunk between two element applications of another chunk')] +
    [_inst('ptr_anymt', 0, 0, q=_ANYD, what=_ANY, tiers=_T, must=False),
     _inst('fwd_anymt', 1, 0, q=_ANYD, what=_ANY, tiers=_T, must=False)]
)
