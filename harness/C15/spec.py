TECHNIQUE = ('bounded symbolic execution of LLVM IR lowered to C: CBMC/SAT (cadical); real for_each_n/for_each '
             'instantiated over a harness task set that plays scheduler at task granularity')
ASSUMPTIONS = [
    'the task set passed as TaskSetT is a harness mock with the surface for_each_n uses (pool(), numPoolThreads(), '
    'scheduleBulk(count, gen), wait()); like the real sets it evaluates gen(i) for increasing i inside scheduleBulk and '
    'either runs the closure inline or queues it; queued closures run in any order, at any mock entry point (pool of >= 1 '
    'thread) or inside wait()',
    'task-granularity interleaving: a closure runs to completion once started (thorough tier: one other stored closure may '
    'run between two element applications); data races inside a closure are not explored',
    'the caller is not itself inside a parallel-for task (PerPoolPerThreadInfo recursion level 0 on entry)',
]
OUTSIDE = ('n > 6 (quick) / 7 (thorough); pools of more than 2 (quick) / 3 (thorough) threads; the overloads without a task '
           'set argument (they construct a real TaskSet on the global pool and forward to the checked overload with '
           'wait=true); functors that throw; nested for_each calls from inside the functor')

_CHECKS = ['--div-by-zero-check', '--pointer-check', '--bounds-check']


def _inst(name, it, entry, rv, region, what):
    d = {'VF_ITER': it, 'VF_ENTRY': entry, 'VF_RVALUE': rv, 'VF_REGION': region}
    q = dict(d, VF_MAXN=6, VF_NPOOL=2, VF_MAXTASKS=2, VF_DEEP=0)
    t = dict(d, VF_MAXN=7, VF_NPOOL=3, VF_MAXTASKS=3, VF_DEEP=1)
    # SmallVector<Iter,64>'s heap-growth loops: never entered for <= 64 boundaries; bound 1 + unwinding assertion
    us = {}
    itn = {1: '5FwdIt', 2: '6BidiIt'}.get(it)
    if itn:
        for fn in ('_ZN8dispenso11SmallVectorI%sLm64EE14ensureCapacityEm', '_ZN8dispenso11SmallVectorI%sLm64EE12emplace_backIJRKS1_EEERS1_DpOT_'):
            for k in range(4):
                us['%s.%d' % (fn % itn, k)] = 1
    return {
        'name': name, 'src': 'foreach.cpp', 'engine': 'cbmc', 'defs': q,
        'repo_sources': ['dispenso/detail/per_thread_info.cpp'],
        'unwind': 9, 'unwindset': us, 'timeout': 900, 'checks': _CHECKS, 'leak_check': True, 'object_bits': 12,
        'rt_defs': {'VF_NLOG': 128},
        'bounds': what + '; n 0..6 of 7 elements (thorough: 0..7 of 8), pool size 0..2 (thorough 0..3), maxThreads any '
                  'uint32_t, wait true/false; each task inline or stored, stored tasks run in any order at the start of later '
                  'schedule() calls (pool >= 1 thread) or in wait() (task-granularity interleaving; thorough: also between '
                  'two element applications of the caller chunk)',
        'thorough': {'defs': t, 'unwind': 10, 'unwindset': us, 'timeout': 1700},
    }


INSTANCES = [
    _inst('ptr_n', 0, 0, 0, 0, 'for_each_n, random-access (pointer) iterators, functor lvalue'),
    _inst('fwd_range', 1, 1, 1, 0, 'for_each(first,last), harness forward iterator over a linked list, functor rvalue'),
    _inst('bidi_n', 2, 0, 1, 0, 'for_each_n, harness bidirectional iterator over a doubly linked list, functor rvalue'),
    _inst('zero_pool_nowait_ptr', 0, 0, 0, 1, 'for_each_n, pointer iterators, only: zero-thread pool, wait=false, n>0, maxThreads>0'),
    _inst('zero_pool_nowait_fwd', 1, 0, 0, 1, 'for_each_n, forward iterators, only: zero-thread pool, wait=false, n>0, maxThreads>0'),
]
