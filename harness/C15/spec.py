TECHNIQUE = ('bounded symbolic execution of LLVM IR lowered to C: CBMC/SAT (cadical); real for_each_n/for_each '
             'instantiated over a harness task set that plays scheduler at task granularity; configuration space '
             'explored as a tree of literal scenarios under a symbolic selector')
ASSUMPTIONS = [
    'the task set passed as TaskSetT is a harness mock with the surface for_each_n uses (pool(), numPoolThreads(), '
    'scheduleBulk(count, gen), wait()); like the real sets it evaluates gen(i) once for every i in [0,count) inside '
    'scheduleBulk and either runs the closure inline or queues it; queued closures run in any order, at any later mock '
    'entry point (pool of >= 1 thread) or inside wait()',
    'task-granularity interleaving: a closure runs to completion once started (thorough tier: one other stored closure may '
    'run between two element applications); data races inside a closure are not explored',
]
OUTSIDE = ('n > 6 (quick) / 8 (thorough); pools of more than 2 (quick) / 3 (thorough) threads; maxThreads other than '
           '{0,1,2,INT32_MAX,UINT32_MAX} except in the *_anymt instances (any uint32_t, n <= 4); the overloads without a task '
           'set argument (they construct a real TaskSet on the global pool and forward to the checked overload with '
           'wait=true); functors that throw; nested for_each calls from inside the functor')

_CHECKS = ['--div-by-zero-check', '--pointer-check', '--bounds-check']
_ITN = {0: 'pointer (random-access) iterators', 1: 'harness forward iterator', 2: 'harness bidirectional iterator',
        3: 'harness random-access iterator class'}


def _inst(name, it, entry, rv=0, stateful=0, tiers=('quick', 'thorough'), q=None, t=None, what='', unwind=9, tunwind=11):
    d = {'VF_ITER': it, 'VF_ENTRY': entry, 'VF_RVALUE': rv, 'VF_STATEFUL': stateful}
    qd = dict(d, VF_MAXN=6, VF_NPOOL=2, VF_MAXTASKS=3, VF_DEEP=0)
    qd.update(q or {})
    td = dict(d, VF_MAXN=8, VF_NPOOL=3, VF_MAXTASKS=4, VF_DEEP=0)
    td.update(t or q or {})
    return {
        'name': name, 'src': 'foreach.cpp', 'engine': 'cbmc', 'defs': qd, 'tiers': list(tiers),
        'repo_sources': ['dispenso/detail/per_thread_info.cpp'],
        'unwind': unwind, 'timeout': 400, 'checks': _CHECKS, 'object_bits': 13, 'must_reach': 'all',
        'bounds': '%s, %s, functor passed as %s%s; %s' % (
            'for_each(first,last)' if entry else 'for_each_n', _ITN[it], 'rvalue' if rv else 'lvalue',
            ' (stateful: pointer capture)' if stateful else '', what),
        'thorough': {'defs': td, 'unwind': tunwind, 'timeout': 1700},
    }


_FULL = ('every combination of n 0..6 of 8 elements (thorough 0..8 of 10), pool size 0..2 (thorough 0..3), maxThreads in '
         '{0,1,2,INT32_MAX,UINT32_MAX}, wait true/false, caller outside / already inside a parallel-for chunk of the same pool; '
         'each chunk task inline or stored, stored tasks run in any order at the start of later schedule() calls (pool >= 1 '
         'thread) or in wait() (task-granularity interleaving)')
_ZP = ('only zero-thread pool, wait=false, n 1..6 (thorough 1..8), maxThreads in {1,2,INT32_MAX,UINT32_MAX}; the one chunk inline '
       'or stored until wait()')
_ZPD = {'VF_MTNZ': 1, 'VF_MINN': 1, 'VF_NPOOL': 0, 'VF_WAITSEL': 0, 'VF_RECUR': 0}
_ANY = ('every combination of n 0..4, pool size 0..2 (thorough 0..3), wait true/false with maxThreads any uint32_t '
        '(symbolic); scheduling as above')
_ANYD = {'VF_ANYMT': 1, 'VF_MAXN': 4, 'VF_RECUR': 0}

INSTANCES = [
    _inst('ptr_n', 0, 0, rv=0, stateful=1, what=_FULL),
    _inst('fwd_range', 1, 1, rv=1, what=_FULL),
    _inst('bidi_n', 2, 0, rv=1, what=_FULL),
    _inst('fwd_n', 1, 0, rv=0, what=_FULL, tiers=('thorough',)),
    _inst('bidi_range', 2, 1, rv=0, what=_FULL, tiers=('thorough',)),
    _inst('ptr_range', 0, 1, rv=1, what=_FULL, tiers=('thorough',)),
    _inst('rand_n', 3, 0, rv=1, what=_FULL, tiers=('thorough',)),
    _inst('zero_pool_nowait_ptr', 0, 0, q=_ZPD, t=dict(_ZPD, VF_MAXN=8), what=_ZP),
    _inst('zero_pool_nowait_fwd', 1, 0, q=_ZPD, t=dict(_ZPD, VF_MAXN=8), what=_ZP),
    _inst('ptr_anymt', 0, 0, q=_ANYD, t=dict(_ANYD, VF_NPOOL=3), what=_ANY),
    _inst('fwd_anymt', 1, 0, q=_ANYD, t=dict(_ANYD, VF_NPOOL=3), what=_ANY),
]
