// Contract model of dispenso::OnceFunction for the pipeline harnesses (optional: spec lists the
// include directory only for instances with VF_ONCE_SHIM; the real class is property C39).
// Contract encoded (dispenso/once_function.h): move-only type-erased void() callable; operator()
// invokes the stored callable once and destroys it; cleanupNotRun() destroys it without invoking;
// the class has NO destructor - a OnceFunction that is neither invoked nor cleaned up leaks its
// callable (here: a typed heap holder, visible to the leak check and to lifetime counters); a move
// transfers the obligation.  Why: the real class keeps the callable in a char buffer and moves by
// memcpy; CBMC then represents every closure (and the pointers inside) as bytes.
#pragma once
#include <utility>
#include <type_traits>
#include <dispenso/platform.h>
#include <dispenso/small_buffer_allocator.h>

namespace dispenso {
#if DISPENSO_HAS_CONCEPTS
template <typename F>
concept OnceCallableFunc = std::invocable<F>;
#endif  // DISPENSO_HAS_CONCEPTS
namespace detail {
template <typename Result>
class FutureBase;
template <typename Result>
class FutureImplBase;
constexpr size_t kOnceFunctionInlineSize = 56;
// ghost: callables currently stored in OnceFunctions (created and neither run nor cleaned up yet)
struct OnceGhost {
  static int& live() {
    static int n = 0;
    return n;
  }
};
struct OnceHolderBase {
  OnceHolderBase() {
    ++OnceGhost::live();
  }
  virtual void invoke(bool run) = 0;
  virtual ~OnceHolderBase() {
    --OnceGhost::live();
  }
};
template <typename F>
struct OnceHolder : OnceHolderBase {
  F f;
  template <typename U>
  explicit OnceHolder(U&& u) : f(std::forward<U>(u)) {}
  void invoke(bool run) override {
    if (run) {
      f();
    }
  }
};
}  // namespace detail

class OnceFunction {
 public:
  OnceFunction() : h_(nullptr) {}
  template <typename F, typename = typename std::enable_if<!std::is_same<typename std::decay<F>::type, OnceFunction>::value>::type>
  OnceFunction(F&& f) : h_(new detail::OnceHolder<typename std::remove_reference<F>::type>(std::forward<F>(f))) {}
  OnceFunction(const OnceFunction& other) = delete;
  OnceFunction(OnceFunction&& other) noexcept : h_(other.h_) {}
  OnceFunction& operator=(OnceFunction&& other) noexcept {
    h_ = other.h_;
    return *this;
  }
  void cleanupNotRun() {
    h_->invoke(false);
    delete h_;
  }
  void operator()() const {
    detail::OnceHolderBase* h = h_;
    h->invoke(true);
    delete h;
  }

 private:
  mutable detail::OnceHolderBase* h_;
  template <typename Result>
  friend class detail::FutureBase;
  template <typename Result>
  friend class detail::FutureImplBase;
};
}  // namespace dispenso
