// Contract model of dispenso::ThreadPool for the pipeline harnesses (C27/C28/C29); derived from
// harness/C04/shim/dispenso/thread_pool.h (same contract, see there for the rationale: with the real
// pool the packaged closures travel through type-erased byte buffers inside the pool object and
// symbolic execution does not finish).  Replaces <dispenso/thread_pool.h>; the real pipeline.h,
// detail/pipeline_impl.h, task_set.h, detail/task_set_impl.h, task_set.cpp, once_function.h are
// compiled unchanged against it.  (The real pool is the subject of C01/C08/C46/C47.)
//
// Contract encoded (an over-approximation of the real pool's scheduling decisions):
//  * schedule(f) / schedulePlaced(f): the pool EITHER runs f inline on the caller OR queues it -
//    arbitrary choice (the real decision depends on load);
//  * the ForceQueuingTag overloads queue f, except that a pool with 0 threads runs it inline;
//    workRemaining_ is incremented per queued task and decremented after a task ran;
//  * tryExecuteNext() runs one queued task if there is one (never fails spuriously).  Which one:
//    VF_POOL_ANY=0 the oldest (FIFO), VF_POOL_ANY=1 ANY queued task (symbolic choice; the real
//    central queue is FIFO per producer only and several workers dequeue concurrently);
//  * tasks are never put into per-thread rings (tryExecuteNextFromRings finds nothing) - the task
//    set entry points the pipeline uses (schedule(f) / schedule(f, ForceQueuingTag) of a
//    ConcurrentTaskSet) never use them;
//  * at most VF_PQ_CAP tasks are queued at any time (model bound; executions exceeding it are cut).
// Pool threads are virtual: the harness calls tryExecuteNext() at symbolic points.
#pragma once

#include <atomic>
#include <cassert>
#include <cstdlib>
#include <mutex>
#include <thread>

#include <moodycamel/concurrentqueue.h>

#include <dispenso/detail/per_thread_info.h>
#include <dispenso/once_function.h>
#include <dispenso/platform.h>

#include "vf.h"

#ifndef VF_PQ_CAP
#define VF_PQ_CAP 4
#endif
#ifndef VF_POOL_ANY
#define VF_POOL_ANY 0
#endif

namespace dispenso {

namespace detail {
template <typename Result>
class FutureBase;
template <typename Result>
class FutureImplBase;
class LimitGatedScheduler;
}  // namespace detail

struct ForceQueuingTag {};

namespace vfpool {
struct TaskBase {
  virtual void run() = 0;
  virtual ~TaskBase() {}
};
template <typename F>
struct TaskHolder : TaskBase {
  F f;
  explicit TaskHolder(F&& x) : f(std::move(x)) {}
  void run() override {
    f();
  }
};
}  // namespace vfpool

class ThreadPool {
 public:
  ThreadPool(size_t n, size_t poolLoadMultiplier = 32)
      : poolLoadFactor_(static_cast<ssize_t>(n * poolLoadMultiplier)),
        numThreads_(static_cast<ssize_t>(n)),
        numRings_(n),
        head_(0),
        cnt_(0),
        everQueued_(0) {
    for (uint32_t i = 0; i < VF_PQ_CAP; ++i) {
      slot_[i] = nullptr;
    }
  }
  ~ThreadPool() {
    // the real destructor drains what is still queued
    while (tryExecuteNext()) {
    }
  }

  ssize_t numThreads() const {
    return numThreads_.load(std::memory_order_relaxed);
  }

  template <typename F>
  void schedule(F&& f) {
    if (vf_nondet_bool()) {
      f();
    } else {
      schedule(std::forward<F>(f), ForceQueuingTag());
    }
  }
  template <typename F>
  void schedule(F&& f, ForceQueuingTag) {
    forceEnqueue(std::forward<F>(f));
  }
  template <typename F>
  void schedule(moodycamel::ProducerToken&, F&& f) {
    schedule(std::forward<F>(f));
  }
  template <typename F>
  void schedule(moodycamel::ProducerToken&, F&& f, ForceQueuingTag) {
    forceEnqueue(std::forward<F>(f));
  }
  template <typename F>
  void schedulePlaced(F&& f) {
    schedule(std::forward<F>(f));
  }
  template <typename F>
  void schedulePlaced(F&& f, ForceQueuingTag) {
    forceEnqueue(std::forward<F>(f));
  }

  template <typename Generator>
  void scheduleBulkEnqueue(size_t count, Generator&& gen, moodycamel::ProducerToken* = nullptr) {
    for (size_t j = 0; j < count; ++j) {
      forceEnqueue(gen(j));
    }
  }
  template <typename Generator>
  void scheduleBulkToRings(size_t count, Generator&& gen, moodycamel::ProducerToken*) {
    for (size_t j = 0; j < count; ++j) {
      forceEnqueue(gen(j));
    }
  }
  template <typename Generator>
  void scheduleBulkPlaced(size_t count, Generator&& gen) {
    for (size_t j = 0; j < count; ++j) {
      schedule(gen(j));
    }
  }

  bool tryExecuteNext() {
    return runPopped(popTask());
  }
  bool tryExecuteNextFromProducerToken(moodycamel::ProducerToken&) {
    return tryExecuteNext();
  }
  bool tryExecuteNextFromRings(size_t& startRing) {
    startRing = 0;
    return false;
  }

  // ---- model internals
  template <typename F>
  void forceEnqueue(F&& f) {
    if (!numThreads_.load(std::memory_order_relaxed)) {
      f();
      return;
    }
    workRemaining_.fetch_add(1, std::memory_order_release);
    using FNoRef = typename std::remove_reference<F>::type;
    pushRaw(new vfpool::TaskHolder<FNoRef>(std::move(f)));
  }
  VF_NOINLINE void pushRaw(vfpool::TaskBase* t) {
    vf_assume(cnt_ < VF_PQ_CAP);  // model bound
    slot_[(head_ + cnt_) % VF_PQ_CAP] = t;
    ++cnt_;
    ++everQueued_;
  }
  VF_NOINLINE vfpool::TaskBase* popTask() {
    if (cnt_ == 0) {
      return nullptr;
    }
    uint32_t h = head_ % VF_PQ_CAP;
#if VF_POOL_ANY
    if (cnt_ > 1) {
      uint32_t j = vf_range_u32(0, VF_PQ_CAP - 1);
      vf_assume(j < cnt_);
      uint32_t k = (head_ + j) % VF_PQ_CAP;
      vfpool::TaskBase* tmp = slot_[h];
      slot_[h] = slot_[k];
      slot_[k] = tmp;
    }
#endif
    vfpool::TaskBase* t = slot_[h];
    slot_[h] = nullptr;
    head_ = (head_ + 1) % VF_PQ_CAP;
    --cnt_;
    return t;
  }
  bool runPopped(vfpool::TaskBase* t) {
    if (!t) {
      return false;
    }
    t->run();
    delete t;
    workRemaining_.fetch_add(-1, std::memory_order_relaxed);
    return true;
  }

  std::atomic<ssize_t> poolLoadFactor_;
  std::atomic<ssize_t> numThreads_;
  std::atomic<size_t> numRings_;
  std::atomic<ssize_t> workRemaining_{0};
  moodycamel::ConcurrentQueue<OnceFunction> work_;  // only identifies producer tokens

  vfpool::TaskBase* slot_[VF_PQ_CAP];
  uint32_t head_;
  uint32_t cnt_;
  uint32_t everQueued_;
};

// declared for pipeline(stages...) (never instantiated by the harnesses; not defined)
ThreadPool& globalThreadPool();

}  // namespace dispenso
