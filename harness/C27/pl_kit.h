// Shared kit of the pipeline harnesses C27 (delivery), C28 (stage limits), C29 (exceptions).
//
// Real code under test (compiled unchanged from /repo): dispenso/pipeline.h (pipeline(pool, ...),
// stage(f, limit), kStageNoLimit), detail/pipeline_impl.h (LimitGatedScheduler::Impl::{schedule,
// wait} incl. the completion callback / resource + outstanding accounting and both RAII guards,
// Stage, StageLimits, TransformTraits, Pipe<kGenerator|kTransform|kOpTransform|kSink|kSingleStage>,
// makePipes/makePipesHelper), detail/op_result.h, once_function.h + detail/once_callable_impl.h,
// detail/completion_event_impl.h (status word; the futex *syscall* is the environment, see below),
// task_set.h / detail/task_set_impl.h / task_set.cpp (ConcurrentTaskSet ctor, schedule(f),
// schedule(f, ForceQueuingTag), schedulePlaced, packageTask, hasException, trySetCurrentException,
// wait, testAndResetException, dtor), detail/per_thread_info.{h,cpp}.
//
// Environment models: contract ThreadPool (shim/dispenso/thread_pool.h in this directory),
// moodycamel queue contract (shim/moodycamel), small-buffer allocator contract (below), kernel futex
// (below).  Engine 'cbmc' (sequential): the harness plays the pool workers ("virtual workers"):
//  * every stage invocation does  enter(ghost) ; runOthers() ; exit(ghost)  where runOthers() lets
//    up to VF_OTHERS *other queued pool tasks* run to completion right there (symbolic choice, as if
//    on another pool thread: registered as pool thread, own inline depth), nesting bounded by
//    VF_DEPTH - so invocations overlap in time (LIFO nesting of task lifetimes);
//  * a futex WAIT whose word still has the expected value blocks the caller: a virtual worker takes
//    one queued pool task (if none is queued nobody can ever change the word: reported as deadlock);
//  * pipeline()'s own wait loops run queued tasks through the real tryExecuteNext() / wait() code.
#pragma once

#include <unistd.h>
#include <sys/syscall.h>
#include <linux/futex.h>
#include <exception>
#include <cstdlib>

#include "vf.h"

// ---- kernel futex contract for the sequential engine.  notifier_common.h:30 calls
// syscall(SYS_futex, uaddr, op, val, timeout, uaddr2, val3): WAKE has nobody to wake (virtual
// workers never park); WAIT returns at once if the word differs, otherwise the caller is blocked and
// the only thing that can happen is that a pool worker runs a queued task; returning from WAIT
// guarantees nothing (spurious returns are allowed), the real loop re-checks the status.
static long vfh_futex(int* uaddr, int op, int val);
#define syscall(nr, uaddr, op, val, timeout, uaddr2, val3) vfh_futex((uaddr), (op), (val))

#include <dispenso/pipeline.h>

#ifndef VF_POOL_N
#define VF_POOL_N 1
#endif
#ifndef VF_ITEMS
#define VF_ITEMS 2  // generator produces n in 0..VF_ITEMS items (n symbolic)
#endif
#ifndef VF_NST
#define VF_NST 2  // stages after the generator (the last one is the sink), 1..3; 0 = single-stage pipeline
#endif
// limit coding: 0 = plain function (serial stage), n>0 = stage(f, n), 99 = stage(f, kStageNoLimit)
#ifndef VF_GL
#define VF_GL 0
#endif
#ifndef VF_L1
#define VF_L1 0
#endif
#ifndef VF_L2
#define VF_L2 0
#endif
#ifndef VF_L3
#define VF_L3 0
#endif
#ifndef VF_FILTER
#define VF_FILTER 0  // index (1..VF_NST-1) of a filtering stage (returns OpResult<Item>), 0 = none
#endif
#ifndef VF_DEPTH
#define VF_DEPTH 2
#endif
#ifndef VF_OTHERS
#define VF_OTHERS 1
#endif
#ifndef VF_CTX
#define VF_CTX 0  // caller context, see Scenario
#endif
#ifndef VF_WDEPTH
#define VF_WDEPTH 0  // 1: virtual workers start tasks at a symbolic inline depth in {0,31,32}; 0: at depth 0
#endif
#ifndef VF_CHK_DELIVERY
#define VF_CHK_DELIVERY 0
#endif
#ifndef VF_CHK_LIMIT
#define VF_CHK_LIMIT 0
#endif
#ifndef VF_CHK_EXC
#define VF_CHK_EXC 0
#endif
#ifndef VF_THROWERS
#define VF_THROWERS 1  // C29: number of (item, stage) pairs that throw (<= 2)
#endif
#ifndef VF_HEAP_PAYLOAD
#define VF_HEAP_PAYLOAD 0  // items own a malloc'ed block (freed in the destructor)
#endif

// ---- small-buffer allocator contract (the real allocator is property C41): fresh block of at
// least 4 << ordinal bytes / give it back.
namespace dispenso {
namespace detail {
char* allocSmallBufferImpl(size_t ordinal) {
  return static_cast<char*>(::malloc(size_t{4} << ordinal));
}
void deallocSmallBufferImpl(size_t, void* buf) {
  ::free(buf);
}
}  // namespace detail
}  // namespace dispenso

namespace plkit {

using dispenso::ThreadPool;
constexpr int kStages = 4;  // generator = stage 0, then 1..3

// ------------------------------------------------------------------------------- ghost state
static ThreadPool* g_pool;
static uint32_t g_n;                         // number of items the generator produces
static uint32_t g_next;                      // next item index handed out by the generator
static uint32_t g_genCalls;                  // generator invocations
static uint32_t g_genEnd;                    // generator invocations that returned end-of-input
static uint8_t g_seed[VF_ITEMS + 1];         // symbolic base tag of item i
static uint8_t g_cnt[VF_ITEMS + 1][kStages]; // invocations of stage k for item i
static uint32_t g_dropMask;                  // items the filter stage drops
static int32_t g_in[kStages];                // invocations of stage k in progress
static int32_t g_lim[kStages];               // limit of stage k (as passed: <=0 / huge allowed)
static bool g_returned;                      // pipeline() has returned / thrown
static uint32_t g_depth;                     // nesting depth of runOthers
static uint32_t g_busy;                      // virtual pool workers currently inside a task
static int32_t g_live;                       // live Item objects
static uint32_t g_throwA, g_throwB;          // C29: throwing (item*4 + stage) codes, 99 = none
static int32_t g_firstThrown;                // C29: token of the first exception thrown (-1 none)
static uint32_t g_thrown;                    // C29: number of exceptions thrown
static bool g_excSeen;                       // C29: a generator call *started* after ... (see genBody)
static uint32_t g_genCallsAtThrow;
static int g_workerDepth;                    // inline depth at which virtual workers start a task (one symbolic choice per run)

static inline uint32_t addOf(int k) {
  return k == 1 ? 10u : (k == 2 ? 100u : (k == 3 ? 1000u : 0u));
}
// tag that stage k must receive for item i: base + contributions of stages 1..k-1
static inline uint32_t expectTag(uint32_t i, int k) {
  uint32_t t = g_seed[i];
  if (k > 1 && VF_FILTER != 1) t += 10u;
  if (k > 2 && VF_FILTER != 2) t += 100u;
  return t;
}

// ------------------------------------------------------------------------------- item payload
struct Item {
  uint32_t id;
  uint32_t tag;
#if VF_HEAP_PAYLOAD
  uint32_t* blk;
#endif
  Item(uint32_t i, uint32_t t) : id(i), tag(t) {
    ++g_live;
#if VF_HEAP_PAYLOAD
    blk = static_cast<uint32_t*>(::malloc(sizeof(uint32_t)));
    *blk = i;
#endif
  }
  Item(const Item& o) : id(o.id), tag(o.tag) {
    ++g_live;
#if VF_HEAP_PAYLOAD
    blk = static_cast<uint32_t*>(::malloc(sizeof(uint32_t)));
    *blk = *o.blk;
#endif
  }
  Item(Item&& o) noexcept : id(o.id), tag(o.tag) {
    ++g_live;
#if VF_HEAP_PAYLOAD
    blk = o.blk;
    o.blk = nullptr;
#endif
  }
  Item& operator=(const Item&) = delete;
  ~Item() {
    --g_live;
#if VF_HEAP_PAYLOAD
    if (blk) {
      ::free(blk);
    }
#endif
  }
};

// ------------------------------------------------------------------------------- virtual workers
// One pool worker takes one queued task and runs it to completion (what threadLoop does: the task
// runs on a thread registered with the pool, at an arbitrary inline depth - a worker can pick the
// task up while it is itself inside nested inline frames of other work).
// inline depth of a thread when it starts a task: 0, one below the limit, at the limit
static inline int symDepth() {
  uint32_t c = vf_range_u32(0, 2);
  return c == 0 ? 0 : (c == 1 ? dispenso::detail::kMaxInlineDepth - 1 : dispenso::detail::kMaxInlineDepth);
}

VF_NOINLINE static bool workerStep() {
  using PI = dispenso::detail::PerPoolPerThreadInfo;
  auto& info = dispenso::detail::PerPoolPerThreadInfo::info();
  void* savedPool = info.pool;
  void* savedProd = info.producer;
  int32_t savedRing = info.ringIndex;
  int savedDepth = PI::inlineDepth();
  PI::registerPool(g_pool, nullptr, 0);
  PI::inlineDepth() = g_workerDepth;
  ++g_busy;
  bool ran = false;
#if VF_CHK_EXC
  bool escaped = false;
  try {
    ran = g_pool->tryExecuteNext();
  } catch (...) {
    escaped = true;
  }
  vf_check(!escaped, "an exception escaped a pipeline task into the pool worker");
#else
  ran = g_pool->tryExecuteNext();
#endif
  --g_busy;
  PI::inlineDepth() = savedDepth;
  PI::registerPool(savedPool, savedProd, savedRing);
  return ran;
}

// Other pool threads make progress while the caller is in the middle of a stage invocation.
VF_NOINLINE static void runOthers() {
  // a pool of VF_POOL_N threads: at most VF_POOL_N tasks are in progress on pool threads
  if (g_depth >= VF_DEPTH || g_busy >= VF_POOL_N) {
    return;
  }
  ++g_depth;
  for (uint32_t r = 0; r < VF_OTHERS; ++r) {
    // (no choice to make when nothing is queued)
    if (g_pool->cnt_ == 0 || !vf_nondet_bool()) {
      break;
    }
    workerStep();
  }
  --g_depth;
}

}  // namespace plkit

static long vfh_futex(int* uaddr, int op, int val) {
  if ((op & 127) != FUTEX_WAIT) {
    return 0;
  }
  if (*uaddr != val) {
    return -1;  // EAGAIN
  }
  // (instances where the caller is a pool thread use pools with >= 2 threads)
  bool ran = plkit::g_busy < VF_POOL_N && plkit::workerStep();
  vf_check(
      ran || *uaddr != val,
      "pipeline() blocks forever: it waits for the generator tasks but no task is queued or running");
  return 0;
}

namespace plkit {

// ------------------------------------------------------------------------------- stage bodies
// Common part of every invocation of stage k (k >= 1) with input `in`.
VF_NOINLINE static void stageBody(int k, uint32_t id, uint32_t tag) {
#if VF_CHK_DELIVERY || VF_CHK_EXC
  vf_check(!g_returned, "a stage ran after pipeline() had returned");
  vf_check(id < g_n, "a stage received an item the generator never produced");
#endif
  vf_assume(id <= VF_ITEMS);
  g_cnt[id][k]++;
#if VF_CHK_DELIVERY || VF_CHK_EXC
  vf_check(g_cnt[id][k] == 1, "an item passed a stage twice");
#endif
#if VF_CHK_DELIVERY
  vf_check(tag == expectTag(id, k), "a stage received something other than its predecessor's output for that item");
  if (k > 1) {
    vf_check(g_cnt[id][k - 1] == 1, "an item reached a stage without having passed the previous stage");
  }
  if (VF_FILTER != 0 && k > VF_FILTER) {
    vf_check(((g_dropMask >> id) & 1) == 0, "a filtered item reached a later stage");
  }
#endif
  g_in[k]++;
#if VF_CHK_LIMIT
  vf_check(g_in[k] <= (g_lim[k] < 1 ? 1 : g_lim[k]), "a stage has more concurrent invocations than its limit");
#ifdef VF_OVERLAP
  if (k == VF_OVERLAP && g_in[k] == 2) {
    vf_reach("two invocations of the stage overlap");
  }
#endif
#endif
  runOthers();
#if VF_CHK_EXC
  uint32_t code = id * 4 + (uint32_t)k;
  if (code == g_throwA || code == g_throwB) {
    g_in[k]--;
    if (g_firstThrown < 0) {
      g_firstThrown = (int32_t)code;
      g_genCallsAtThrow = g_genCalls;
    }
    g_thrown++;
    throw (int)code;
  }
#endif
  g_in[k]--;
}

struct Gen {
  dispenso::OpResult<Item> operator()() const {
#if VF_CHK_DELIVERY || VF_CHK_EXC
    vf_check(!g_returned, "the generator ran after pipeline() had returned");
#endif
#if VF_CHK_EXC
    vf_check(g_firstThrown < 0, "the generator was called again after a stage had thrown");
#endif
    g_genCalls++;
    g_in[0]++;
#if VF_CHK_LIMIT
    vf_check(g_in[0] <= (g_lim[0] < 1 ? 1 : g_lim[0]), "the generator has more concurrent invocations than its limit");
#if defined(VF_OVERLAP) && VF_OVERLAP == 0
    if (g_in[0] == 2) {
      vf_reach("two invocations of the stage overlap");
    }
#endif
#endif
    runOthers();
    g_in[0]--;
    if (g_next >= g_n) {
      g_genEnd++;
      return dispenso::OpResult<Item>();
    }
    uint32_t i = g_next++;
    g_cnt[i][0]++;
#if VF_CHK_EXC
    uint32_t code = i * 4;
    if (code == g_throwA || code == g_throwB) {
      if (g_firstThrown < 0) {
        g_firstThrown = (int32_t)code;
        g_genCallsAtThrow = g_genCalls;
      }
      g_thrown++;
      throw (int)code;
    }
#endif
    return dispenso::OpResult<Item>(Item(i, g_seed[i]));
  }
};

template <int K>
struct Xf {
  Item operator()(Item in) const {
    stageBody(K, in.id, in.tag);
    return Item(in.id, in.tag + addOf(K));
  }
};

template <int K>
struct Flt {
  dispenso::OpResult<Item> operator()(Item in) const {
    stageBody(K, in.id, in.tag);
    if ((g_dropMask >> in.id) & 1) {
      return dispenso::OpResult<Item>();
    }
    return dispenso::OpResult<Item>(Item(in.id, in.tag));
  }
};

template <int K>
struct Sink {
  void operator()(Item in) const {
    stageBody(K, in.id, in.tag);
  }
};

// single-stage pipeline: bool f(), run until it returns false
struct Single {
  bool operator()() const {
#if VF_CHK_DELIVERY || VF_CHK_EXC
    vf_check(!g_returned, "the stage ran after pipeline() had returned");
#endif
    g_genCalls++;
    g_in[0]++;
#if VF_CHK_LIMIT
    vf_check(g_in[0] <= (g_lim[0] < 1 ? 1 : g_lim[0]), "the single stage has more concurrent invocations than its limit");
#endif
    runOthers();
    g_in[0]--;
    if (g_next >= g_n) {
      g_genEnd++;
      return false;
    }
    uint32_t i = g_next++;
    g_cnt[i][0]++;
    return true;
  }
};

// ------------------------------------------------------------------------------- building the call
template <typename F>
F mk(F f, std::integral_constant<int, 0>) {
  return f;
}
template <typename F, int L>
auto mk(F f, std::integral_constant<int, L>) {
  return dispenso::stage(std::move(f), L == 99 ? dispenso::kStageNoLimit : (ssize_t)L);
}
#define PL_MK(L, F) plkit::mk(F, std::integral_constant<int, L>())

template <int K>
using Mid = typename std::conditional<VF_FILTER == K, Flt<K>, Xf<K>>::type;

static inline int32_t limOf(int l) {
  return l == 0 ? 1 : (l == 99 ? 0x7fffffff : l);
}

VF_NOINLINE static void callPipeline(ThreadPool& pool) {
#if VF_NST == 0
  dispenso::pipeline(pool, PL_MK(VF_GL, Single()));
#elif VF_NST == 1
  dispenso::pipeline(pool, PL_MK(VF_GL, Gen()), PL_MK(VF_L1, Sink<1>()));
#elif VF_NST == 2
  dispenso::pipeline(pool, PL_MK(VF_GL, Gen()), PL_MK(VF_L1, Mid<1>()), PL_MK(VF_L2, Sink<2>()));
#else
  dispenso::pipeline(
      pool, PL_MK(VF_GL, Gen()), PL_MK(VF_L1, Mid<1>()), PL_MK(VF_L2, Mid<2>()), PL_MK(VF_L3, Sink<3>()));
#endif
}

// code of the exception being handled (call inside a catch block): stages throw `(int)code`
static inline uint32_t caughtId() {
  std::exception_ptr e = std::current_exception();
  return (uint32_t) * static_cast<int*>(e._M_exception_object);
}

// Symbolic inputs + caller context; returns extra pool load to remove afterwards.
struct Scenario {
  ssize_t extraWork;
  moodycamel::ProducerToken ptoken;
  explicit Scenario(ThreadPool& pool) : extraWork(0), ptoken(pool.work_) {
    g_pool = &pool;
    g_n = vf_range_u32(0, VF_ITEMS);
    for (uint32_t i = 0; i <= VF_ITEMS; ++i) {
      g_seed[i] = vf_range_u8(1, 9);
    }
    g_dropMask = VF_FILTER ? vf_range_u32(0, (1u << VF_ITEMS) - 1) : 0;
    vf_assume(g_dropMask < (1u << g_n));  // (bits of items that are never produced are irrelevant)
    g_lim[0] = limOf(VF_GL);
    g_lim[1] = limOf(VF_L1);
    g_lim[2] = limOf(VF_L2);
    g_lim[3] = limOf(VF_L3);
    g_workerDepth = VF_WDEPTH ? symDepth() : 0;
    g_firstThrown = -1;
    g_throwA = 99;
    g_throwB = 99;
    // Caller context (decides the real inline-vs-queue branches of ConcurrentTaskSet::schedulePlaced):
    // VF_CTX 0 external thread, idle pool; 1 the caller is itself a pool thread (pool-recursive);
    // 2 pool overloaded by other work (4096 pending tasks): inline whenever the depth allows;
    // 3 overloaded, caller one frame below the inline depth limit; 4 overloaded, caller at the limit
    // (inlining refused: everything force-queued); 5 symbolic choice among all of these.
    uint32_t c = VF_CTX == 5 ? vf_range_u32(0, 4) : (uint32_t)VF_CTX;
    if (c == 1) {
      dispenso::detail::PerPoolPerThreadInfo::registerPool(&pool, &ptoken, VF_POOL_N > 0 ? 0 : -1);
      g_busy = 1;  // the caller occupies one of the pool's threads
    }
    if (c >= 2) {
      extraWork = 4096;
      pool.workRemaining_.fetch_add(extraWork, std::memory_order_relaxed);
    }
    if (c == 3) {
      dispenso::detail::PerPoolPerThreadInfo::inlineDepth() = dispenso::detail::kMaxInlineDepth - 1;
    }
    if (c == 4) {
      dispenso::detail::PerPoolPerThreadInfo::inlineDepth() = dispenso::detail::kMaxInlineDepth;
    }
  }
  void restore(ThreadPool& pool) {
    pool.workRemaining_.fetch_sub(extraWork, std::memory_order_relaxed);
    dispenso::detail::PerPoolPerThreadInfo::inlineDepth() = 0;
    dispenso::detail::PerPoolPerThreadInfo::registerPool(nullptr, nullptr, -1);
  }
};

}  // namespace plkit
