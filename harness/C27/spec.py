TECHNIQUE = ('bounded symbolic execution of LLVM IR lowered to C: CBMC/SAT (cadical), sequential engine, real pipeline + '
             'ConcurrentTaskSet on a contract ThreadPool with virtual workers (task-granularity interleaving with nested overlap)')
ASSUMPTIONS = [
    'dispenso::ThreadPool replaced by its contract model harness/C27/shim/dispenso/thread_pool.h (ForceQueuingTag queues unless the '
    'pool has 0 threads; tryExecuteNext runs one queued task, FIFO or any order; <= VF_PQ_CAP tasks queued at a time); real pipeline.h, '
    'detail/pipeline_impl.h, task_set.h, detail/task_set_impl.h, task_set.cpp, once_function.h compiled unchanged against it',
    'moodycamel::ConcurrentQueue replaced by its contract (linearizable bounded FIFO, try_dequeue never fails spuriously)',
    'small-buffer allocator replaced by its contract (fresh block / free); kernel futex: WAIT with unchanged word = a pool worker '
    'runs one queued task, WAKE has no parked model thread to wake',
    'stage functors are re-entrant and do not throw (C27/C28)',
]
OUTSIDE = ('task-granularity interleaving: a stage invocation overlaps with other tasks only at the point inside the stage body where the '
           'harness lets other queued tasks run to completion (LIFO nesting, depth <= 2); switches between the atomic operations of '
           'LimitGatedScheduler::schedule / the completion callback / wait (e.g. completion callback finds the queue empty while a new '
           'item is being enqueued) are outside; spurious try_dequeue failures of the real moodycamel queue are outside; real ThreadPool '
           'internals are abstracted by the contract pool; more than 3 items / 3 stages after the generator; std::optional stages (C++17)')

import os
_BASE = {
    'engine': 'cbmc', 'shims': ['moodycamel', '../harness/C27/shim'],
    'repo_sources': ['dispenso/detail/per_thread_info.cpp', 'dispenso/task_set.cpp'],
    'models': ['aligned_alloc'], 'cflags': ['-fno-inline'],
    # path-exploration mode (see paths_rt.c) + CBMC's standard checks (pointer validity incl. dead/deallocated objects)
    'checks': ['--div-by-zero-check', '--paths', 'lifo'], 'rt_extra': ['harness/C27/paths_rt.c'],
    'spin_loops': True, 'solver': 'minisat', 'timeout': int(os.environ.get('DEV_TIMEOUT', 1500)), 'must_reach': 'all',
}
_LN = {0: 'plain function (serial)', 99: 'stage(f, kStageNoLimit)'}


_CTX = {0: 'external caller, idle pool', 1: 'caller is a pool thread', 2: 'pool overloaded by 4096 other tasks (inline whenever allowed)',
        3: 'pool overloaded, caller at inline depth 31', 4: 'pool overloaded, caller at inline depth 32 (no inlining)',
        5: 'caller context symbolic: external+idle / pool thread / overloaded pool at inline depth 0, 31, 32'}


def lname(l):
    return _LN.get(l, 'stage(f, %d)' % l)


def pl(name, pool, nst, gl=0, l1=0, l2=0, l3=0, flt=0, items=2, depth=2, others=1, ctx=0, any_=0, unwind=4, pq=4, mq=2,
       tiers=('thorough',), src='deliver.cpp', extra=None, **kw):
    defs = {'VF_POOL_N': pool, 'VF_NST': nst, 'VF_GL': gl, 'VF_L1': l1, 'VF_L2': l2, 'VF_L3': l3, 'VF_FILTER': flt,
            'VF_ITEMS': items, 'VF_DEPTH': depth, 'VF_OTHERS': others, 'VF_CTX': ctx, 'VF_POOL_ANY': any_,
            'VF_PQ_CAP': pq, 'VF_MQ_CAP': mq}
    defs.update(extra or {})
    ls = [l1, l2, l3][:nst]
    shape = 'generator %s' % lname(gl) + ''.join(
        ' -> %s%s %s' % ('sink' if k == nst else ('filter' if flt == k else 'transform'), k, lname(ls[k - 1])) for k in range(1, nst + 1))
    if nst == 0:
        shape = 'single-stage pipeline %s' % lname(gl)
    b = ('pipeline(pool, %s) on the contract pool with %d threads; 0..%d items (symbolic count%s); %s; queued pool tasks run at '
         'symbolic points: inside every stage invocation (<=%d other task(s), nesting depth <=%d), when pipeline() blocks, and by '
         "pipeline()'s own wait loops; pool hands out %s; <=%d tasks queued in the pool, <=%d items queued per limited stage; loops "
         'of the real code cut after %d iterations'
         % (shape, pool, items, ', symbolic set of filtered items' if flt else '',
            _CTX[ctx],
            others, depth, 'any queued task' if any_ else 'the oldest queued task', pq, mq, unwind))
    d = dict(_BASE)
    d.update({'name': name, 'src': src, 'defs': defs, 'bounds': b, 'tiers': list(tiers), 'unwind': unwind})
    d.update(kw)
    return d


_Q = ('quick', 'thorough')
_T = ('thorough',)
INSTANCES = [
    # quick: 10-110 paths each
    pl('g_s_p1', 1, 1, tiers=_Q),                      # generator -> serial sink, 1 pool thread
    pl('g_s_p2', 2, 1, tiers=_Q),                      # same on 2 pool threads (tasks overlap)
    pl('g_x2_s_p1', 1, 2, l1=2, tiers=_Q),             # limit-2 transform, serial sink
    pl('g_f_s_p1', 1, 2, flt=1, tiers=_Q),             # filtering stage (OpResult), symbolic filtered set
    pl('g_x_s_p0', 0, 2, tiers=_Q),                    # pool without threads: everything inline
    pl('g_x_s_p1_c2', 1, 2, ctx=2, tiers=_Q),          # overloaded pool: inline fallbacks of schedulePlaced
    # thorough
    pl('g2_xu_s_p2', 2, 2, gl=2, l1=99, tiers=_T, timeout=3000),   # 2 generator tasks, unlimited transform (> 870 paths)
    pl('g_x_x2_s_p1', 1, 3, l2=2, tiers=_T, timeout=3000),         # 3 stages after the generator
    pl('g_f_x2_s_p2', 2, 3, flt=1, l2=2, tiers=_T, timeout=3000),  # filter + limited stage on 2 threads
    pl('g_x2_s_p1_i3', 1, 2, l1=2, items=3, pq=6, mq=3, unwind=5, tiers=_T, timeout=3000),  # 3 items
    pl('g_x_s_p2_c1', 2, 2, ctx=1, tiers=_T, timeout=3000),        # pipeline() called from a pool thread
    pl('g_x_s_p1_c3', 1, 2, ctx=3, tiers=_T, timeout=3000),        # overloaded, inline depth 31 -> forced queuing after one frame
    pl('g_x_s_p1_c4', 1, 2, ctx=4, tiers=_T, timeout=3000),        # overloaded, inline depth 32
    pl('g_s_p2_any', 2, 1, any_=1, tiers=_T, timeout=3000),        # pool hands out any queued task
    pl('single_p1', 1, 0, tiers=_T), pl('single2_p2', 2, 0, gl=2, tiers=_T),   # single-stage pipelines
]
