/* Included into the generated C (spec key 'rt_extra') of the pipeline harnesses, which run CBMC in
 * path-exploration mode (--paths lifo: every feasible control path is executed with full constant
 * propagation instead of merging states at joins - the real code's nested loops/recursion are then
 * only unwound where they are actually reachable).  CBMC's builtin __CPROVER_deallocate records the
 * freed pointer under `if(nondet)` - a *branch*, which doubles the number of paths per free().  This
 * is the same nondeterministic choice as a branch-free conditional expression. */
_Bool nondet_bool(void);
void __CPROVER_deallocate(void *ptr) {
  _Bool r = nondet_bool();
  __CPROVER_deallocated = r ? ptr : __CPROVER_deallocated;
}
