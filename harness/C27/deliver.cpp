// C27: pipeline() returns only after every item produced by the generator has either been filtered
// out by a stage or passed, exactly once, through every later stage and the sink, each stage
// receiving its predecessor's output for that item.
// Shape of the pipeline (number of stages, limits, filter stage, pool size) is compile-time per
// instance (see spec.py); symbolic: number of items 0..VF_ITEMS, base tags, the set of filtered
// items, the caller context (pool thread or not, inline depth, other pool load), every scheduling
// choice of the contract pool and of the virtual workers (see pl_kit.h).
#define VF_CHK_DELIVERY 1
#include "pl_kit.h"

using namespace plkit;

extern "C" void vf_main() {
  {
    dispenso::ThreadPool pool(VF_POOL_N);
    Scenario sc(pool);
    callPipeline(pool);
    g_returned = true;
    vf_check(pool.cnt_ == 0, "a task of the pipeline is still queued in the pool after pipeline() returned");
    vf_check(g_in[0] == 0 && g_in[1] == 0 && g_in[2] == 0 && g_in[3] == 0, "a stage invocation is still in progress after pipeline() returned");
    vf_check(g_next == g_n, "pipeline() returned before the generator reached end-of-input");
    for (uint32_t i = 0; i < VF_ITEMS; ++i) {
      bool produced = i < g_n;
#if VF_NST == 0
      vf_check(g_cnt[i][0] == (produced ? 1 : 0), "single stage: wrong number of successful invocations");
#else
      vf_check(g_cnt[i][0] == (produced ? 1 : 0), "the generator produced an item twice / an item that does not exist");
      for (int k = 1; k <= VF_NST; ++k) {
        // (branch-free on purpose: in path-exploration mode every branch on symbolic data forks a path)
        uint32_t reaches = (uint32_t)produced & (uint32_t)!(VF_FILTER != 0 && k > VF_FILTER && ((g_dropMask >> i) & 1));
        vf_check(g_cnt[i][k] >= reaches, "pipeline() returned but an unfiltered item has not passed a stage");
        vf_check(g_cnt[i][k] <= reaches, "an item passed a stage twice, or a filtered / non-existent item passed a stage");
      }
#endif
    }
    vf_check(g_live == 0, "item objects are still alive after pipeline() returned");
    sc.restore(pool);
    vf_reach("pipeline() returned");
  }
  // pool destructor drained whatever was left: must not have run anything of the pipeline
  vf_reach("end");
}
