ASSUMPTIONS = ['no recursive locking; unlock_shared uses the index passed to lock_shared (documented)']
OUTSIDE = 'tbd'
CHECKS = ['--div-by-zero-check', '--no-unwinding-assertions']  # cbmc 6 emits unwinding assertions by default; spin loops are cut instead
def I(name, defs, steps, nthreads, bounds, **kw):
    d = {'name': name, 'src': 'drw.cpp', 'engine': 'cbmc-seq', 'steps': steps, 'spin_loops': True, 'defs': defs,
         'unwind': 3, 'nthreads': nthreads, 'checks': CHECKS, 'timeout': 600, 'must_reach': 'all', 'bounds': bounds, 'seq_unroll': True}
    d.update(kw)
    return d
INSTANCES = [
    I('n1', {'VF_N': 1, 'VF_READERS': 2, 'VF_LOCKW': 1, 'VF_TRYW': 1, 'VF_MUST': 7}, 4, 4, 'tbd'),
    I('n2r1', {'VF_N': 2, 'VF_READERS': 1, 'VF_LOCKW': 1, 'VF_TRYW': 1, 'VF_MUST': 7}, 4, 3, 'tbd'),
    I('n2', {'VF_N': 2, 'VF_READERS': 2, 'VF_LOCKW': 1, 'VF_TRYW': 1, 'VF_MUST': 7}, 4, 4, 'tbd', tiers=['thorough'], timeout=1700),
]
