TECHNIQUE = ('bounded symbolic execution of LLVM IR lowered to C: CBMC/SAT (cadical), sequentialised step machine '
             '(engine cbmc-seq: symbolic round-robin scheduler over resumable thread roots, exact futex model, deadlock detection), '
             'ghost occupancy counters, quiescent slot-word check')
ASSUMPTIONS = ['no recursive locking; unlock_shared is called with the index that was passed to lock_shared (documented)',
               'the slot array lives in a typed static array instead of the makeAlignedArray/alignedMalloc block (storage only; every lock/unlock '
               'member function executed is the real one; alignedMalloc is property C44)',
               'sequential consistency for the slot words (the only atomics)']
OUTSIDE = ('N = 16 / 128 (slot loops multiply the state; N in {1,2} quick, 4 thorough); more threads than stated; one acquire/release pair per thread; '
           'schedules needing more execution segments per thread than the stated number of scheduler rounds; spin loops iterating more than twice '
           'within one segment (cut, not reported); a locker spinning forever on a leaked writer bit is only caught by the quiescent slot-word check; '
           'weak-memory reorderings; the DistributedRWLock<N> wrapper\'s threadId() mapping is subsumed by the fully symbolic 64-bit index')
# cbmc 6 emits unwinding assertions by default; spin loops are cut (assume) instead
CHECKS = ['--div-by-zero-check', '--no-unwinding-assertions']


def I(name, defs, steps, nthreads, bounds, **kw):
    d = {'name': name, 'src': 'drw.cpp', 'engine': 'cbmc-seq', 'steps': steps, 'spin_loops': True, 'defs': defs,
         'unwind': 3, 'nthreads': nthreads, 'checks': CHECKS, 'timeout': 1700, 'must_reach': 'all', 'seq_unroll': True,
         'bounds': bounds + '; reader slot index = any 64-bit value, reader kind lock_shared/try_lock_shared symbolic; %d scheduler rounds (each thread <= %d '
                            'execution segments, preemption at every atomic op / futex call / inside the ghost critical section); spin loops <= 2 '
                            'iterations per segment; <= 1 spurious futex return per thread' % (steps, steps)}
    d.update(kw)
    return d


INSTANCES = [
    I('n1', {'VF_N': 1, 'VF_READERS': 2, 'VF_LOCKW': 1, 'VF_TRYW': 1, 'VF_MUST': 7}, 4, 4,
      'N=1; 4 threads: lock() writer, try_lock() writer, 2 readers'),
    I('n2r1', {'VF_N': 2, 'VF_READERS': 1, 'VF_LOCKW': 1, 'VF_TRYW': 1, 'VF_MUST': 7}, 4, 3,
      'N=2; 3 threads: lock() writer, try_lock() writer, 1 reader'),
    I('n2', {'VF_N': 2, 'VF_READERS': 2, 'VF_LOCKW': 1, 'VF_TRYW': 1, 'VF_MUST': 7}, 4, 4,
      'N=2; 4 threads: lock() writer, try_lock() writer, 2 readers', tiers=['thorough']),
    I('n2t2', {'VF_N': 2, 'VF_READERS': 1, 'VF_LOCKW': 0, 'VF_TRYW': 2, 'VF_MUST': 7}, 4, 3,
      'N=2; 3 threads: two try_lock() writers, 1 reader', tiers=['thorough']),
    I('n4r1', {'VF_N': 4, 'VF_READERS': 1, 'VF_LOCKW': 1, 'VF_TRYW': 1, 'VF_MUST': 7}, 4, 3,
      'N=4; 3 threads: lock() writer, try_lock() writer, 1 reader', tiers=['thorough'], unwind=3),
]
