// C23: DistributedRWLock mutual exclusion and progress (engine cbmc-seq).
// Real code: detail::DistributedRWLockImpl<N>::{lock, try_lock, unlock, lock_shared, try_lock_shared,
//   unlock_shared, ctor (makeAlignedArray/alignedMalloc)}, detail::RWLockImpl::{setWriteBit, tryWriteBit,
//   waitForReaderDrain, unlock, lock_shared, try_lock_shared, unlock_shared, readerRelease},
//   CompletionEventImpl::{wait, tryNotify} (futex path).
// Symbolic: every reader's slot index (full 64-bit value; the code reduces it with & kMask), reader kind
//   (blocking / try), the interleaving of all atomic operations and futex calls, futex wake choices,
//   spurious futex returns.
#include <new>
#include <dispenso/detail/distributed_rw_lock_impl.h>
#include "vf.h"

#ifndef VF_N
#define VF_N 2
#endif
#ifndef VF_READERS      // reader threads (the last one is main)
#define VF_READERS 2
#endif
#ifndef VF_LOCKW        // a blocking writer thread
#define VF_LOCKW 1
#endif
#ifndef VF_TRYW         // number of try_lock writer threads
#define VF_TRYW 1
#endif
#ifndef VF_MUST
#define VF_MUST 0
#endif

using DL = dispenso::detail::DistributedRWLockImpl<VF_N>;
static DL D;

static int g_writers, g_readers;  // ghost occupancy (over the whole distributed lock)
static unsigned g_events;
enum { EV_TRY_FAILED = 1, EV_TRY_OK = 2, EV_TRY_SHARED_FAILED = 4 };
static inline void note(unsigned ev) { VfAtomic a; g_events |= ev; }

static inline void crit_w() {
  {
    VfAtomic a;
    vf_check(g_writers == 0 && g_readers == 0, "write access granted while another writer or a reader (on some slot) holds the lock");
    ++g_writers;
  }
  vf_sched_point();
  {
    VfAtomic a;
    vf_check(g_writers == 1 && g_readers == 0, "another thread was granted access while a writer holds the lock");
    --g_writers;
  }
}
static inline void crit_r() {
  {
    VfAtomic a;
    vf_check(g_writers == 0, "read access granted while a writer holds the lock");
    ++g_readers;
  }
  vf_sched_point();
  {
    VfAtomic a;
    vf_check(g_writers == 0, "write access granted while a reader holds the lock");
    --g_readers;
  }
}

static inline void reader_op() {
  size_t idx = vf_nondet_u64();  // any thread-to-slot mapping
  if (vf_nondet_bool()) {
    D.lock_shared(idx);
    crit_r();
    D.unlock_shared(idx);
  } else if (D.try_lock_shared(idx)) {
    crit_r();
    D.unlock_shared(idx);
  } else {
    note(EV_TRY_SHARED_FAILED);
  }
}
static inline void try_writer_op() {
  if (D.try_lock()) {
    crit_w();
    D.unlock();
    note(EV_TRY_OK);
  } else {
    note(EV_TRY_FAILED);
  }
}

#if VF_LOCKW
static void t_lock_writer(void*) {
  D.lock();
  crit_w();
  D.unlock();
}
#endif
#if VF_TRYW >= 1
static void t_try_writer(void*) { try_writer_op(); }
#endif
#if VF_TRYW >= 2
static void t_try_writer2(void*) { try_writer_op(); }
#endif
#if VF_READERS >= 2
static void t_reader(void*) { reader_op(); }
#endif
#if VF_READERS >= 3
static void t_reader2(void*) { reader_op(); }
#endif

extern "C" void vf_main() {
#if VF_LOCKW
  vf_spawn(t_lock_writer, nullptr);
#endif
#if VF_TRYW >= 1
  vf_spawn(t_try_writer, nullptr);
#endif
#if VF_TRYW >= 2
  vf_spawn(t_try_writer2, nullptr);
#endif
#if VF_READERS >= 2
  vf_spawn(t_reader, nullptr);
#endif
#if VF_READERS >= 3
  vf_spawn(t_reader2, nullptr);
#endif
#if VF_READERS >= 1
  reader_op();
#endif
  vf_join_all();
  vf_check(g_writers == 0 && g_readers == 0, "ghost occupancy not zero at quiescence (harness)");
#if VF_MUST & 1
  if (g_events & EV_TRY_FAILED) vf_reach("a try_lock failed (and everything still completed)");
#endif
#if VF_MUST & 2
  if (g_events & EV_TRY_OK) vf_reach("a try_lock succeeded");
#endif
#if VF_MUST & 4
  if (g_events & EV_TRY_SHARED_FAILED) vf_reach("a try_lock_shared failed");
#endif
  // Quiescence: every successful acquire was released; a failed try_lock / try_lock_shared must have
  // left no trace.  Probe slot (symbolic) instead of a loop.
  size_t probe = vf_nondet_u64();
  vf_assume(probe < VF_N);
  vf_check(D.slots_[probe].lockWord().load(std::memory_order_relaxed) == 0,
           "a slot word is not back to the unlocked value at quiescence (failed try_lock left a trace / lost release)");
}
