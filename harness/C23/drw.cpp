// C23: DistributedRWLock mutual exclusion and progress (engine cbmc-seq).
// Real code: detail::DistributedRWLockImpl<N>::{lock, try_lock, unlock, lock_shared, try_lock_shared,
//   unlock_shared, ctor (makeAlignedArray/alignedMalloc)}, detail::RWLockImpl::{setWriteBit, tryWriteBit,
//   waitForReaderDrain, unlock, lock_shared, try_lock_shared, unlock_shared, readerRelease},
//   CompletionEventImpl::{wait, tryNotify} (futex path).
// Symbolic: every reader's slot index (full 64-bit value; the code reduces it with & kMask), reader kind
//   (blocking / try), the interleaving of all atomic operations and futex calls, futex wake choices,
//   spurious futex returns.
#include <new>
#include <dispenso/detail/distributed_rw_lock_impl.h>
#include "vf.h"

#ifndef VF_N
#define VF_N 2
#endif
#ifndef VF_READERS      // reader threads (the last one is main)
#define VF_READERS 2
#endif
#ifndef VF_LOCKW        // a blocking writer thread
#define VF_LOCKW 1
#endif
#ifndef VF_TRYW         // number of try_lock writer threads
#define VF_TRYW 1
#endif
#ifndef VF_MUST
#define VF_MUST 0
#endif

using DL = dispenso::detail::DistributedRWLockImpl<VF_N>;
// Storage: the real constructor obtains the slot array from makeAlignedArray (alignedMalloc: malloc +
// integer pointer arithmetic), which the solver can only treat as untyped bytes (measured: > 15 min).
// The harness therefore constructs the object's only data member, slots_, over a typed static Slot
// array (value-initialised Slot(), exactly what makeAlignedArray does per element).  Every lock /
// unlock member function executed is the real one.  (alignedMalloc itself is property C44.)
static DL::Slot g_slots[VF_N];
using SlotsPtr = decltype(DL::slots_);
union Holder {
  DL d;
  Holder() { new (&d.slots_) SlotsPtr(g_slots, dispenso::detail::AlignedArrayFreeDeleter<DL::Slot>{VF_N}); }
  ~Holder() {}
};
static Holder g_holder;
#define D (g_holder.d)

static int g_writers, g_readers;  // ghost occupancy (over the whole distributed lock)
static unsigned g_events;
enum { EV_TRY_FAILED = 1, EV_TRY_OK = 2, EV_TRY_SHARED_FAILED = 4 };
static inline void note(unsigned ev) { VfAtomic a; g_events |= ev; }

static inline void crit_w() {
  {
    VfAtomic a;
    vf_check(g_writers == 0 && g_readers == 0, "write access granted while another writer or a reader (on some slot) holds the lock");
    ++g_writers;
  }
  vf_sched_point();
  {
    VfAtomic a;
    vf_check(g_writers == 1 && g_readers == 0, "another thread was granted access while a writer holds the lock");
    --g_writers;
  }
}
static inline void crit_r() {
  {
    VfAtomic a;
    vf_check(g_writers == 0, "read access granted while a writer holds the lock");
    ++g_readers;
  }
  vf_sched_point();
  {
    VfAtomic a;
    vf_check(g_writers == 0, "write access granted while a reader holds the lock");
    --g_readers;
  }
}

// Reader on slot K with index hi * N + K: every 64-bit index value is of this form; the branch on K
// keeps the sub-lock address a constant in each copy (a symbolic array index makes the solver treat
// the slot array as raw bytes), the real code still reduces the full index with `& kMask`.
template <size_t K>
static inline void reader_at(uint64_t hi, bool blocking) {
  size_t idx = hi * VF_N + K;
  if (blocking) {
    D.lock_shared(idx);
    crit_r();
    D.unlock_shared(idx);
  } else if (D.try_lock_shared(idx)) {
    crit_r();
    D.unlock_shared(idx);
  } else {
    note(EV_TRY_SHARED_FAILED);
  }
}
static inline void reader_op() {
  uint64_t hi = vf_nondet_u64();  // any thread-to-slot mapping
  uint8_t k = vf_nondet_u8();
  vf_assume(k < VF_N);
  bool blocking = vf_nondet_bool();
  if (k == 0) reader_at<0>(hi, blocking);
#if VF_N >= 2
  else if (k == 1) reader_at<1>(hi, blocking);
#endif
#if VF_N >= 4
  else if (k == 2) reader_at<2>(hi, blocking);
  else if (k == 3) reader_at<3>(hi, blocking);
#endif
}
static inline void try_writer_op() {
  if (D.try_lock()) {
    crit_w();
    D.unlock();
    note(EV_TRY_OK);
  } else {
    note(EV_TRY_FAILED);
  }
}

#if VF_LOCKW
static void t_lock_writer(void*) {
  D.lock();
  crit_w();
  D.unlock();
}
#endif
#if VF_TRYW >= 1
static void t_try_writer(void*) { try_writer_op(); }
#endif
#if VF_TRYW >= 2
static void t_try_writer2(void*) { try_writer_op(); }
#endif
#if VF_READERS >= 2
static void t_reader(void*) { reader_op(); }
#endif
#if VF_READERS >= 3
static void t_reader2(void*) { reader_op(); }
#endif

extern "C" void vf_main() {
#if VF_LOCKW
  vf_spawn(t_lock_writer, nullptr);
#endif
#if VF_TRYW >= 1
  vf_spawn(t_try_writer, nullptr);
#endif
#if VF_TRYW >= 2
  vf_spawn(t_try_writer2, nullptr);
#endif
#if VF_READERS >= 2
  vf_spawn(t_reader, nullptr);
#endif
#if VF_READERS >= 3
  vf_spawn(t_reader2, nullptr);
#endif
#if VF_READERS >= 1
  reader_op();
#endif
  vf_join_all();
  vf_check(g_writers == 0 && g_readers == 0, "ghost occupancy not zero at quiescence (harness)");
#if VF_MUST & 1
  if (g_events & EV_TRY_FAILED) vf_reach("a try_lock failed (and everything still completed)");
#endif
#if VF_MUST & 2
  if (g_events & EV_TRY_OK) vf_reach("a try_lock succeeded");
#endif
#if VF_MUST & 4
  if (g_events & EV_TRY_SHARED_FAILED) vf_reach("a try_lock_shared failed");
#endif
  // Quiescence: every successful acquire was released; a failed try_lock / try_lock_shared must have
  // left no trace.
  for (size_t i = 0; i < VF_N; ++i)
    vf_check(D.slots_[i].lockWord().load(std::memory_order_relaxed) == 0,
             "a slot word is not back to the unlocked value at quiescence (failed try_lock left a trace / lost release)");
}
