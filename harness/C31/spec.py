import importlib.util, os
_p = os.path.join(os.path.dirname(os.path.abspath(__file__)), '..', 'C30', 'spec.py')
_sp = importlib.util.spec_from_file_location('spec_C30_shared', _p)
_c30 = importlib.util.module_from_spec(_sp)
_sp.loader.exec_module(_c30)

TECHNIQUE = ('bounded symbolic execution of LLVM IR lowered to C: CBMC/SAT (cadical), sequential harness: symbolic '
             'marked subset, real ForwardPropagator + executor, run log compared with a reference closure')
ASSUMPTIONS = _c30.ASSUMPTIONS + [
    'nodes are marked with Node::setIncomplete() after a complete evaluation, then ForwardPropagator runs once '
    'before the next execution (the documented partial re-evaluation protocol)',
]
OUTSIDE = ('BiPropGraph / bidirectional-propagation sets (not decided: biPropSet_ is ordered by node address, which makes every literal instance time out); graphs with more than 3 nodes; symbolic (non-literal) shapes or marked subsets (one symbolic bit already exceeds 400 s); executors other than SingleThreadExecutor; several '
           'subgraphs; marking nodes of a graph that was never evaluated; calling ForwardPropagator twice without an '
           'execution in between')


def _i(name, shape, bshape, tiers, rearm=0, nodes=3, timeout=900, unwind=4, mark=None):
    biprop = 1 if bshape is not None else 0
    what = 'BiPropGraph' if biprop else 'Graph'
    if shape is None:
        sh = 'every upper-triangular shape (symbolic edge mask%s)' % (', every edge plain or BiProp' if biprop else '')
    else:
        sh = 'edge mask %d (bit0=0->1, bit1=0->2, bit2=1->2)' % shape + (', BiProp edges %d' % bshape if biprop else '')
    d = _c30._inst(name, 'reeval.cpp', nodes, biprop, tiers, unwind,
                   '%s with %d nodes, %s; full evaluation, then every subset of nodes marked incomplete (symbolic), '
                   'ForwardPropagator, SingleThreadExecutor%s' % (what, nodes, sh,
                   ', then setAllNodesIncomplete + full run' if rearm else ''), timeout=timeout)
    d['defs'] = {'VF_NODES': nodes, 'VF_BIPROP': biprop, 'VF_REARM': rearm}
    if shape is not None:
        d['defs']['VF_SHAPE'] = shape
        d['defs']['VF_BSHAPE'] = bshape or 0
    if mark is not None:
        d['defs']['VF_MARK'] = mark
        d['bounds'] = d['bounds'].replace('every subset of nodes marked incomplete (symbolic)', 'node subset %s (bit i = node i) marked incomplete' % mark)
    return d


def _g(shape, mark, tiers, rearm=0):
    return _i('g_s%d_m%d' % (shape, mark), shape, None, tiers, rearm=rearm, mark=mark, timeout=600)


def _b(shape, bshape, mark, tiers, rearm=0):
    return _i('b_s%d_b%d_m%d' % (shape, bshape, mark), shape, bshape, tiers, rearm=rearm, mark=mark, timeout=600)


_QUICK = [_g(5, 1, ['quick']), _g(6, 1, ['quick']), _g(3, 6, ['quick']),
          # BiProp: 0=>1 BiProp, 1->2 plain, node 1 marked: closure {1,2}, set {0,1} joins
          _b(5, 1, 2, ['quick']),
          # BiProp: 1=>2 BiProp, node 2 marked: closure {2}, set {1,2} joins, node 0 stays complete
          _b(5, 4, 4, ['quick']),
          # BiProp: 0=>2 and 1=>2 BiProp (set grown through the "this has a set, the other has none" branch), node 0 marked
          _b(6, 6, 1, ['quick'])]
_QN = set(x['name'] for x in _QUICK)
_THOROUGH = ([_g(s, m, ['thorough'], rearm=1 if m == 1 else 0) for s in (3, 5, 6, 7) for m in (1, 2, 4, 6)] +
             [_g(s, m, ['thorough']) for s in (0, 1, 2, 4) for m in (1, 2)] + [_g(7, 0, ['thorough']), _g(7, 7, ['thorough'])] +
             [_b(s, bs, m, ['thorough'], rearm=1 if m == 2 else 0)
              for (s, bs) in ((7, 1), (7, 4), (7, 5), (6, 6)) for m in (1, 2, 4)])
# BiPropGraph instances are NOT part of the check: biPropSet_ is a vector kept sorted by node *address*
# (graph.cpp set_insert/upper_bound, set_union); the relative order of two heap objects is symbolic for CBMC, so even a
# literal shape + literal marked subset did not finish within 600 s (see NOTES.md).  Kept here for reference.
_BIPROP_REFERENCE = [x for x in _QUICK + _THOROUGH if x['name'].startswith('b_')]
INSTANCES = [x for x in _QUICK + _THOROUGH if not x['name'].startswith('b_')]

# Honest level: no symbolic INPUT survives the time budget for this code (libstdc++ containers, type-erased
# functors): every instance is the real code symbolically executed by CBMC on ONE literal graph program
# (shape, and for C31 the marked subset, are literals); the instances enumerate the shapes.  That is
# exploration of a finite family of concrete programs, not a solver verdict over a symbolic input space.
CATEGORY = 'exploration'
LEVEL = ('CBMC symbolic execution of the real graph / executor code on literal 3-node DAG programs, one instance per shape '
         '(and per marked subset for C31): enumeration of a small finite family, every assertion incl. memory safety decided '
         'by the solver per program. Weaker than the other checks: no symbolic inputs.')
