// C31: partial re-evaluation runs exactly the propagated closure.
// Real code: Node::setIncomplete, ForwardPropagator::operator()<G> (+ propagateIncompleteStateBidirectionally,
// ExecutorBase::addIncompletePredecessor / ifIncompleteAddIncompletePredecessor / appendGroup, std::unordered_set
// insert/clear), BiPropNode::biPropDependsOnOneNode (set_insert / set_union merging), setAllNodesIncomplete,
// SingleThreadExecutor::operator(), graph construction as in C30.
// Symbolic: the set of nodes marked incomplete (every subset); the shape is a literal per instance (VF_SHAPE =
// edge mask, VF_BSHAPE = which of those edges are BiProp) or symbolic (no VF_SHAPE).
#include "../C30/graph_kit.h"

#if VF_BIPROP
using G = dispenso::BiPropGraph;
#else
using G = dispenso::Graph;
#endif
#ifndef VF_BSHAPE
#define VF_BSHAPE 0
#endif

extern "C" void vf_main() {
  const uint32_t all = (1u << VF_NODES) - 1;
  G g;
  Built<G> b;
#ifdef VF_SHAPE
  const uint32_t mask = VF_SHAPE, bmask = VF_BSHAPE;
  buildShape<G, VF_SHAPE, VF_BSHAPE>(g, b);
#else
  uint32_t mask = vf_range_u32(0, (1u << VF_EDGES) - 1);
  uint32_t bmask = 0;
#if VF_BIPROP
  bmask = vf_nondet_u32();
  vf_assume((bmask & ~mask) == 0);
#endif
  buildEdges(g, b, mask, bmask);
#endif
  dispenso::SingleThreadExecutor ex;
  dispenso::ForwardPropagator propagate;

  // first, full evaluation (documented arming of a fresh graph)
  setAllNodesIncomplete(g);
  ex(g);

  // new input for a symbolic subset of the nodes
#ifdef VF_MARK
  uint32_t marked = VF_MARK;  // literal subset (one instance per subset)
#else
  uint32_t marked = vf_range_u32(0, all);
#endif
  for (int i = 0; i < VF_NODES; ++i) {
    if ((marked >> i) & 1u) {
      bool changed = b.n[i]->setIncomplete();
      vf_check(changed, "setIncomplete() on a completed node reports a state change");
    }
  }
  propagate(g);

  // reference: forward closure, plus every BiProp set that intersects it
  uint32_t expect = refBiProp(bmask, refClosure(mask, marked));
  for (int i = 0; i < VF_NODES; ++i) {
    vf_check(b.n[i]->isCompleted() == !((expect >> i) & 1u),
             "after ForwardPropagator exactly the closure (plus touching BiProp sets) is incomplete");
  }
  ghostReset();
  ex(g);
  for (int i = 0; i < VF_NODES; ++i) {
    vf_check(g_runs[i] == (((expect >> i) & 1u) ? 1u : 0u),
             "re-evaluation runs exactly the propagated closure, each node once");
    vf_check(b.n[i]->isCompleted(), "after the re-evaluation every node is complete");
  }
  for (int j = 1; j < VF_NODES; ++j) {
    for (int i = 0; i < j; ++i) {
      if (hasEdge(mask, i, j) && ((expect >> i) & 1u) && ((expect >> j) & 1u)) {
        vf_check(g_seq[i] < g_seq[j], "re-run nodes run in dependency order");
      }
    }
  }
#if VF_REARM
  setAllNodesIncomplete(g);
  ghostReset();
  ex(g);
  checkExecution(b, mask, all);  // "setAllNodesIncomplete makes the next execution a full evaluation"
#endif
}
