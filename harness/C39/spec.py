TECHNIQUE = ('bounded symbolic execution of LLVM IR lowered to C: CBMC/SAT (cadical), sequential ownership/lifetime '
             'harness over an address-aware allocator model, one template configuration per solver run')
ASSUMPTIONS = [
    'small-buffer allocator contract (stub in the harness replaces small_buffer_allocator.cpp): allocSmallBufferImpl(ordinal) '
    'returns a block of 4<<ordinal bytes at an address that is a multiple of the block size (any such address modulo 512, '
    'symbolic) and deallocSmallBufferImpl takes it back; that the real allocator honours this is property C41',
    'malloc (reached through the real detail::alignedMalloc for blocks above 256 bytes) may return any 16-aligned address',
    'documented usage contract of OnceFunction: exactly one of operator() / cleanupNotRun() is called on the object that '
    'currently owns the callable; move assignment only into a default-constructed (obligation-free) OnceFunction; '
    'moved-from objects are not used again',
    'callables are trivially relocatable (documented requirement in once_callable_impl.h)',
    'OnceFunction objects sit at a fixed odd multiple of alignof(OnceFunction) (least aligned admissible address class); '
    'instances named *_symslot make the placement symbolic modulo 256',
]
OUTSIDE = ('callable sizes/alignments other than the 54 listed configurations; move chains longer than the stated bound; '
           'callables whose constructor throws; concurrent use; the real SmallBufferAllocator (C41)')

SIZES = [1, 8, 48, 56, 57, 64, 128, 256, 300]
ALIGNS = [1, 8, 16, 64, 128, 256]
QUICK = {(8, 1), (56, 8), (57, 8), (256, 16), (300, 16), (64, 64), (128, 128), (256, 256), (300, 128), (300, 256)}
RT = {'VF_ADDR_AWARE': 1, 'VF_AA_DYNAMIC': 1}


def _inst(n, a, chain, tiers, suffix='', extra=None, tchain=None):
    defs = {'VF_ALIGN': a, 'VF_SIZES': hex(1 << SIZES.index(n)), 'VF_CHAIN': chain}
    defs.update(extra or {})
    ra = (n + a - 1) // a * a
    where = 'inline' if (ra <= 56 and a <= 64) else 'spilled'
    i = {'name': 's%da%d%s' % (n, a, suffix), 'src': 'once.cpp', 'engine': 'cbmc', 'defs': defs,
         'unwind': 8, 'timeout': 900, 'rt_defs': RT, 'tiers': tiers,
         'bounds': 'callable of %d declared bytes, alignas(%d) (sizeof %d, %s); built by copy or by move; move chain of 0..%s '
                   'links, each move construction / move assignment into a default-constructed object / self move '
                   'assignment; then operator() or cleanupNotRun(); allocator block placement symbolic'
                   % (n, a, ra, where, '%d (quick) / %d (thorough)' % (chain, tchain) if tchain else str(chain))}
    if tchain:
        d2 = dict(defs)
        d2['VF_CHAIN'] = tchain
        i['thorough'] = {'defs': d2}
    return i


INSTANCES = []
for _a in ALIGNS:
    for _n in SIZES:
        if (_n, _a) in QUICK:
            INSTANCES.append(_inst(_n, _a, 1, ['quick', 'thorough'], tchain=2))
        else:
            INSTANCES.append(_inst(_n, _a, 1, ['thorough']))
# deeper / wider variants (thorough only)
for _n, _a in [(56, 16), (57, 8), (300, 64)]:
    INSTANCES.append(_inst(_n, _a, 3, ['thorough'], '_chain3'))
for _n, _a in [(48, 16), (56, 8), (64, 64), (300, 8)]:
    INSTANCES.append(_inst(_n, _a, 1, ['thorough'], '_symslot', {'VF_SYMSLOTS': 2}))
# the library's other build configuration: every spill goes through the real alignedMalloc/alignedFree
for _n, _a in [(57, 8), (64, 64), (128, 128), (256, 256)]:
    INSTANCES.append(_inst(_n, _a, 1, ['thorough'], '_nosba', {'DISPENSO_NO_SMALL_BUFFER_ALLOCATOR': 1}))
