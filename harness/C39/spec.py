TECHNIQUE = 'bounded symbolic execution of LLVM IR lowered to C: CBMC/SAT (cadical), sequential lifetime/ownership harness over an address-aware allocator model'
ASSUMPTIONS = []
OUTSIDE = ''
INSTANCES = [
    {'name': 'a8', 'src': 'once.cpp', 'engine': 'cbmc', 'defs': {'VF_ALIGN': 8, 'VF_SIZES': '0x10', 'VF_CHAIN': 2},
     'unwind': 8, 'timeout': 600, 'rt_defs': {'VF_ADDR_AWARE': 1, 'VF_AA_DYNAMIC': 1},
     'bounds': 'x'},
]
