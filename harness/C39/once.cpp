// C39: a OnceFunction built from any callable invokes it exactly when called and at most once,
// destroys it exactly once (on operator() or on cleanupNotRun()), keeps it at an address that
// satisfies its alignment, releases spilled storage exactly once, and moving a OnceFunction
// transfers these obligations (the moved-from object carries none).
//
// Real code: dispenso::OnceFunction::{OnceFunction(), OnceFunction(F&&) [F = P& and P],
//   OnceFunction(OnceFunction&&), operator=(OnceFunction&&), operator(), cleanupNotRun},
//   detail::createOnceCallable / createOnceCallableImpl (inline + spill), detail::invokeInline<P>,
//   detail::invokeSpill<kAllocSize,P>, allocSmallBuffer / deallocSmallBuffer (allocSmallOrLarge,
//   deallocSmallOrLarge, getOrdinal, nextPow2, log2const), detail::alignedMalloc / alignedFree
//   (blocks above 256 bytes, or every block with DISPENSO_NO_SMALL_BUFFER_ALLOCATOR).
// Contract stub (defined below): detail::allocSmallBufferImpl / deallocSmallBufferImpl hand out a
//   block of 4<<ordinal bytes at ANY address that is a multiple of the block size (placement is a
//   symbolic input) and count alloc/free per block.
// Symbolic: payload size class (from the configured list), payload contents seed, copy- vs
//   move-construction of the callable, placement of every OnceFunction object (VF_SYMSLOTS=2: any
//   multiple of alignof(OnceFunction) modulo 256; default: a fixed odd multiple, the least aligned
//   admissible class), placement of the small-buffer block (any multiple of the
//   block size modulo 512), malloc placement for alignedMalloc (any multiple of 16), move chain
//   length 0..VF_CHAIN with each step being move construction / move assignment into a
//   default-constructed object / self move assignment, final operator() vs cleanupNotRun().
#include <new>
#include <utility>
#include <cstdlib>
#include <cstring>
#include <dispenso/once_function.h>
#include "vf.h"

extern "C" uint64_t vf_last_malloc_addr();
extern "C" uint64_t vf_last_malloc_size();
extern "C" uint64_t vf_last_free_addr();
extern "C" uint64_t vf_malloc_count();
extern "C" uint64_t vf_free_count();

#ifndef VF_ALIGN
#define VF_ALIGN 8
#endif
#ifndef VF_SIZES
#define VF_SIZES 0x1ff  // bit i selects kSizes[i] = {1, 8, 48, 56, 57, 64, 128, 256, 300}
#endif
#ifndef VF_KINDS
#define VF_KINDS 3
#endif
#ifndef VF_SYMSLOTS
#define VF_SYMSLOTS 0
#endif
#ifndef VF_CHAIN
#define VF_CHAIN 2
#endif

using OF = dispenso::OnceFunction;

// ---------------------------------------------------------------------------------- ghost state
enum : unsigned char { kOrig = 0x11, kStored = 0x22, kMovedFrom = 0x33, kDead = 0xDD };

struct Ghost {
  int32_t ctor_orig;
  int32_t ctor_stored;
  int32_t dtor_orig;        // destructions of the harness's own callable (intact or moved-from)
  int32_t dtor_stored;      // destructions of the callable that OnceFunction stores
  int32_t body_runs;
  uintptr_t stored_addr;    // where OnceFunction constructed its copy
  unsigned char seed;
};
static Ghost G;

// Callable of exactly N declared bytes and alignment A (sizeof = N rounded up to A).  Byte 0 is the
// role marker, byte N/2 carries the seed, byte N-1 an end marker.
template <size_t N, size_t A>
struct alignas(A) Payload {
  unsigned char b[N];

  // Only three bytes carry state: the role (byte 0), a middle byte (N/2, holds the seed) and an end
  // marker (byte N-1, holds seed^0x5a); a relocation that drops a tail or a head of the object
  // corrupts at least one of them.  (A symbolic probe index was tried and made the inline instances
  // an order of magnitude slower.)
  static constexpr size_t kMid = N / 2;
  static constexpr bool probed() noexcept { return N > 2; }
  explicit Payload(unsigned char seed) noexcept {
    if (probed()) {
      b[kMid] = seed;
    }
    b[N - 1] = (unsigned char)(seed ^ 0x5a);
    b[0] = kOrig;
    ++G.ctor_orig;
  }
  void copyFrom(const Payload& o) noexcept {
    if (probed()) {
      b[kMid] = o.b[kMid];
    }
    b[N - 1] = o.b[N - 1];
    b[0] = o.b[0];
  }
  Payload(const Payload& o) noexcept {
    copyFrom(o);
    stored();
  }
  Payload(Payload&& o) noexcept {
    copyFrom(o);
    o.b[0] = kMovedFrom;
    stored();
  }
  void stored() noexcept {
    vf_check(b[0] == kOrig, "OnceFunction builds its callable from the live callable it was given");
    b[0] = kStored;
    ++G.ctor_stored;
    G.stored_addr = reinterpret_cast<uintptr_t>(this);
    vf_check(reinterpret_cast<uintptr_t>(this) % A == 0,
             "callable is constructed at an address satisfying its alignment");
  }
  bool intact() const noexcept {
    if (N > 1 && b[N - 1] != (unsigned char)(G.seed ^ 0x5a)) {
      return false;
    }
    return !probed() || b[kMid] == G.seed;
  }
  void operator()() noexcept {
    ++G.body_runs;
    vf_check(b[0] == kStored, "operator() runs on the live stored callable");
    vf_check(reinterpret_cast<uintptr_t>(this) % A == 0,
             "callable is invoked at an address satisfying its alignment");
    vf_check(intact(), "callable state is intact when it is invoked");
  }
  ~Payload() {
    unsigned char role = b[0];
    if (role == kStored) {
      ++G.dtor_stored;
      vf_check(reinterpret_cast<uintptr_t>(this) % A == 0,
               "callable is destroyed at an address satisfying its alignment");
      vf_check(intact(), "callable state is intact when it is destroyed");
    } else if (role == kOrig || role == kMovedFrom) {
      ++G.dtor_orig;
    } else {
      vf_check(false, "destructor runs on storage that does not hold a live callable (double destroy / use after free)");
    }
    b[0] = kDead;
  }
};

// --------------------------------------------------------------- small buffer allocator contract
struct Blk {
  uintptr_t addr;
  size_t size;
  size_t ordinal;
  int32_t frees;
};
static Blk g_blk[2];
static int32_t g_nblk;
static int32_t g_bad_dealloc;
alignas(512) static unsigned char g_pool[1024];

namespace dispenso {
namespace detail {
// Contract of SmallBufferAllocator (checked on the real allocator by property C41): a block of
// (4 << ordinal) bytes whose address is a multiple of the block size.
char* allocSmallBufferImpl(size_t ordinal) {
  vf_check(ordinal <= 6, "small-buffer ordinal names one of the pools 4..256 bytes");
  size_t bs = (size_t)4 << ordinal;
  vf_check(g_nblk < 2, "harness bound: at most two small-buffer blocks per OnceFunction");
  if (g_nblk >= 2) {
    return nullptr;
  }
  // block g_nblk lives in its own 512-byte window of the pool, at any multiple of the block size
  uint32_t j = vf_range_u32(0, (uint32_t)(512 / bs) - 1);
  unsigned char* p = g_pool + 512 * g_nblk + bs * j;
  g_blk[g_nblk].addr = reinterpret_cast<uintptr_t>(p);
  g_blk[g_nblk].size = bs;
  g_blk[g_nblk].ordinal = ordinal;
  g_blk[g_nblk].frees = 0;
  ++g_nblk;
  return reinterpret_cast<char*>(p);
}
void deallocSmallBufferImpl(size_t ordinal, void* buf) {
  uintptr_t a = reinterpret_cast<uintptr_t>(buf);
  bool found = false;
  for (int32_t i = 0; i < 2; ++i) {
    if (i < g_nblk && g_blk[i].addr == a && !found) {
      found = true;
      vf_check(g_blk[i].ordinal == ordinal, "block is returned to the pool it came from");
      vf_check(g_blk[i].frees == 0, "small-buffer block is freed at most once");
      if (g_blk[i].frees == 0) {
        // poison the released block (byte 0 is the callable's role marker)
        static_cast<unsigned char*>(buf)[0] = kDead;
        static_cast<unsigned char*>(buf)[g_blk[i].size - 1] = kDead;
      }
      ++g_blk[i].frees;
    }
  }
  if (!found) {
    ++g_bad_dealloc;
  }
  vf_check(found, "deallocSmallBuffer is called with a block that allocSmallBuffer handed out");
}
} // namespace detail
} // namespace dispenso

// ------------------------------------------------------------------------------------- scenario
// Backing store of the OnceFunction objects: slot i lives at g_slots[i].m + alignof(OF)*k.
struct alignas(256) SlotMem {
  unsigned char m[512];
};
static SlotMem g_slots[VF_CHAIN + 1];
constexpr uint32_t kPlacements = 256 / alignof(OF);

// VF_SYMSLOTS=0: every OnceFunction sits at a fixed odd multiple of alignof(OnceFunction) -- the
// least aligned kind of address the type admits (what matters for the callable's alignment is only
// how many low address bits are guaranteed zero).  VF_SYMSLOTS=1: the first object's placement is
// symbolic (any multiple of the alignment modulo 256); VF_SYMSLOTS=2: every object's placement is.
static OF* slotAt(uint32_t i) {
  uint32_t k = (2 * i + 1) % kPlacements;
  if (VF_SYMSLOTS >= 2 || (VF_SYMSLOTS == 1 && i == 0)) {
    k = vf_range_u32(0, kPlacements - 1);
  }
  return reinterpret_cast<OF*>(g_slots[i].m + alignof(OF) * k);
}

template <size_t N, size_t A>
struct Scenario {
  using P = Payload<N, A>;
  bool inl;       // callable lives inside the OnceFunction object
  bool large;     // callable lives in a block obtained from alignedMalloc
  uint64_t m0, f0;
  uintptr_t large_base;

  // where the callable lives now, given the OnceFunction that currently owns it
  uintptr_t payloadAddr(OF* cur) const {
    return inl ? reinterpret_cast<uintptr_t>(cur->buf_) : G.stored_addr;
  }

  void storedInvariant(OF* cur) const {
    vf_check(G.ctor_stored == 1, "exactly one callable is constructed into the OnceFunction");
    vf_check(G.body_runs == 0, "callable does not run before operator()");
    vf_check(G.dtor_stored == 0, "callable is not destroyed before operator() / cleanupNotRun()");
    uintptr_t pa = payloadAddr(cur);
    vf_check(pa % A == 0, "stored callable sits at an address satisfying its alignment");
    vf_check(reinterpret_cast<const unsigned char*>(pa)[0] == kStored, "stored callable is alive where its owner keeps it");
    if (inl) {
      vf_check(pa >= reinterpret_cast<uintptr_t>(cur) && pa + sizeof(P) <= reinterpret_cast<uintptr_t>(cur) + sizeof(OF),
               "inline callable lies inside the OnceFunction object");
    } else if (large) {
      vf_check(vf_free_count() == f0, "spilled block is not released while the callable is stored");
    } else {
      vf_check(g_nblk == 1 && g_blk[0].frees == 0, "spilled block is not released while the callable is stored");
    }
  }

  // one link of the move chain: the obligation travels from *cur to the returned object
  OF* step(OF* cur, uint32_t slot) {
    uint32_t kind = vf_range_u32(0, VF_KINDS - 1);
    OF* nxt = slotAt(slot);
    if (kind == 0) {
      nxt = new (nxt) OF(std::move(*cur));
    } else if (kind == 1) {
      nxt = new (nxt) OF();
      *nxt = std::move(*cur);
    } else {
      *cur = std::move(*cur);
      nxt = cur;
    }
    if (nxt != cur) {
      // the moved-from object carries no obligation: it is destroyed and its storage recycled
      cur->~OF();
      std::memset(static_cast<void*>(cur), 0xA5, sizeof(OF));
      cur = nxt;
    }
    storedInvariant(cur);
    return cur;
  }

  void run() {
    static_assert(sizeof(OF) == 64, "documented: OnceFunction is one 64-byte cache line");
    G = Ghost();
    g_nblk = 0;
    g_bad_dealloc = 0;
    G.seed = vf_nondet_u8();
    m0 = vf_malloc_count();
    f0 = vf_free_count();

    OF* cur = slotAt(0);
    {
      P orig(G.seed);
      if (vf_nondet_bool()) {
        cur = new (cur) OF(orig);  // F = P&: copy
      } else {
        cur = new (cur) OF(std::move(orig));  // F = P: move
      }
    }
    vf_check(G.ctor_orig == 1 && G.dtor_orig == 1, "harness's own callable is untouched by OnceFunction");
    vf_check(G.ctor_stored == 1, "exactly one callable is constructed into the OnceFunction");

    uintptr_t sa = G.stored_addr;
    inl = sa >= reinterpret_cast<uintptr_t>(cur) && sa < reinterpret_cast<uintptr_t>(cur) + sizeof(OF);
    large = !inl && g_nblk == 0;
    large_base = 0;
    if (inl) {
      vf_check(vf_malloc_count() == m0 && g_nblk == 0, "inline storage allocates nothing");
    } else if (large) {
      vf_check(vf_malloc_count() == m0 + 1, "spill beyond the small-buffer pools takes exactly one malloc block");
      large_base = vf_last_malloc_addr();
      vf_check(sa >= large_base && sa + sizeof(P) <= large_base + vf_last_malloc_size(),
               "spilled callable lies inside the block obtained for it");
    } else {
      vf_check(g_nblk == 1, "spill takes exactly one small-buffer block");
      vf_check(sa >= g_blk[0].addr && sa + sizeof(P) <= g_blk[0].addr + g_blk[0].size,
               "spilled callable lies inside the block obtained for it");
    }
    storedInvariant(cur);

    uint32_t len = vf_range_u32(0, VF_CHAIN);
#if VF_CHAIN >= 1
    if (len >= 1) cur = step(cur, 1);
#endif
#if VF_CHAIN >= 2
    if (len >= 2) cur = step(cur, 2);
#endif
#if VF_CHAIN >= 3
    if (len >= 3) cur = step(cur, 3);
#endif
#if VF_CHAIN >= 4
    if (len >= 4) cur = step(cur, 4);
#endif

    bool invoke = vf_nondet_bool();
    if (invoke) {
      (*cur)();
    } else {
      cur->cleanupNotRun();
    }
    cur->~OF();

    vf_check(G.body_runs == (invoke ? 1 : 0), "callable body runs exactly once iff operator() is called");
    vf_check(G.dtor_stored == 1, "stored callable is destroyed exactly once");
    vf_check(G.ctor_orig + G.ctor_stored == G.dtor_orig + G.dtor_stored, "constructions and destructions balance");
    if (inl) {
      vf_check(vf_malloc_count() == m0 && vf_free_count() == f0 && g_nblk == 0, "inline storage allocates and frees nothing");
    } else if (large) {
      vf_check(vf_malloc_count() == m0 + 1 && vf_free_count() == f0 + 1, "spilled block is freed exactly once");
      vf_check(vf_last_free_addr() == large_base, "the block released is the block obtained");
    } else {
      vf_check(g_nblk == 1 && g_blk[0].frees == 1 && g_bad_dealloc == 0, "spilled block is freed exactly once");
      vf_check(vf_malloc_count() == m0 && vf_free_count() == f0, "small-buffer spill does not touch malloc");
    }
  }
};

#define VF_CFG(bit, N)                    \
  if (((VF_SIZES) >> (bit)) & 1) {        \
    if (sel == (bit)) {                   \
      Scenario<N, VF_ALIGN> s;            \
      s.run();                            \
      return;                             \
    }                                     \
  }

extern "C" void vf_main() {
  uint32_t sel = vf_range_u32(0, 8);
  vf_assume(((VF_SIZES) >> sel) & 1);
  VF_CFG(0, 1)
  VF_CFG(1, 8)
  VF_CFG(2, 48)
  VF_CFG(3, 56)
  VF_CFG(4, 57)
  VF_CFG(5, 64)
  VF_CFG(6, 128)
  VF_CFG(7, 256)
  VF_CFG(8, 300)
}
