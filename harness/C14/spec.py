TECHNIQUE = ('bounded symbolic execution of LLVM IR lowered to C: CBMC/SAT (cadical); the real stateful parallel_for '
             'instantiated over a mock TaskSetT; sequential scheduler harness in which body invocations overlap by nesting')
ASSUMPTIONS = [
    'mock TaskSetT contract: scheduleBulk(count, gen) builds gen(0..count-1) in order; every closure runs exactly once, to '
    'completion: before scheduleBulk returns, inside wait(), or nested inside a body invocation in progress (= on another '
    'thread, concurrently with that invocation); which closure runs where is a symbolic choice',
    'thread budget of the mock: at most numPoolThreads stored closures in progress, plus one on the calling thread while it '
    'is inside scheduleBulk()/wait() and not executing loop work itself',
    'concurrency = overlapping lifetimes with proper nesting: a closure started during a body invocation finishes before '
    'that invocation resumes; at most N+1 invocations in flight; only the first 2 body invocations of a task (and of the '
    'caller) contain a scheduling point',
    'the caller is an external thread, not inside an enclosing parallel_for; allocSmallBufferImpl = malloc; '
    'CpuSet::l3CacheGroups() is empty',
]
OUTSIDE = ('instruction-level interleavings (e.g. of the chunk-claim loops of dynamic scheduling); overlap patterns that are '
           'not properly nested; pools with more than 2 threads, range sizes above the stated bound, granularity > 3; '
           'several parallel_for calls sharing one states container without an intervening wait; nested parallel_for')

MODE = {0: 'static chunking', 1: 'adaptive (kAuto) chunking', 2: 'explicit chunk size 1..3'}
CONT = {0: 'array-backed harness container', 1: 'std::list', 2: 'std::deque', 3: 'std::vector'}
API = {0: 'parallel_for(ts, states, gen, ChunkedRange, f(state,b,e), opts)',
       1: 'parallel_for(ts, states, gen, start, end, f(state,b,e), opts)',
       2: 'parallel_for(ts, states, gen, start, end, f(state,i), opts)'}


def inst(name, N, S, mode=0, wait=2, depth=2, cont=0, api=0, tiers=('quick', 'thorough'), timeout=900, unwind=None,
         thorough=None, **kw):
    defs = {'VF_N': N, 'VF_S': S, 'VF_MODE': mode, 'VF_WAIT': wait, 'VF_DEPTH': depth, 'VF_CONT': cont, 'VF_API': api}
    defs.update(kw)
    d = {'name': name, 'src': 'states.cpp', 'engine': 'cbmc', 'defs': defs, 'models': ['aligned_alloc'],
         'unwind': unwind or max(S + 2, N + 3), 'timeout': timeout, 'tiers': list(tiers),
         # multi-group dynamic scheduling needs > 16 workers: unreachable here, the unwinding assertion proves it
         'unwind_fn': {'re:parallel_for_dynamicMultiGroupImpl.*_clI': 1},
         'bounds': ('int32 range, start %d, size 0..%d; %s; %s; %s; numPoolThreads = %d; maxThreads 0..%d or INT32_MAX; '
                    'minItemsPerChunk 0..%d; granularity 1..%d; wait %s; reuseExistingState true/false with 0..%d states '
                    'already in the container; symbolic task order; at most %d body invocations in flight (nesting)' % (
                        defs.get('VF_START', 0), S, MODE[mode], API[api], CONT[cont], N, N + 2, defs.get('VF_MINITEMS_HI', 2),
                        defs.get('VF_GHI', 3), {0: 'false', 1: 'true', 2: 'true/false'}[wait], defs.get('VF_PRE', 2),
                        depth))}
    if thorough:
        d['thorough'] = thorough
    return d


Q = ('quick', 'thorough')
TH = ('thorough',)
EX = ('experimental',)
INSTANCES = [
    # static chunking (decided).  On /repo these report the static / no-wait / tail defect (see NOTES.md).
    inst('static_n1', 1, 6, timeout=900, thorough={'timeout': 1500}),
    inst('static_n2', 2, 6, depth=3, tiers=TH, timeout=1500),
    dict(inst('static_n2_ctx', 2, 5, depth=2, timeout=1500), **{'defs': dict(inst('static_n2_ctx', 2, 5, depth=2)['defs'], VF_CTX=1, VF_WAIT=1)}),
    # wired but never run to completion / too big (see NOTES.md): --tier experimental --only <name>
    inst('static_n1_startend', 1, 6, api=1, tiers=EX, timeout=900),
    inst('static_n1_index', 1, 4, api=2, tiers=EX, timeout=900, VF_SPK=1),
    inst('static_n1_list', 1, 6, cont=1, tiers=EX, timeout=900),
    inst('static_n1_deque', 1, 6, cont=2, tiers=EX, timeout=900),
    inst('static_n1_vector', 1, 6, cont=3, tiers=EX, timeout=900),
    inst('auto_nowait_n1', 1, 4, mode=1, wait=0, tiers=EX, timeout=1500),
    inst('auto_wait_n1', 1, 4, mode=1, wait=1, tiers=EX, timeout=1500),
    inst('chunk_n1', 1, 4, mode=2, tiers=EX, timeout=1500),
]
