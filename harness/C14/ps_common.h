// Shared by harness/C14 (no state object used concurrently) and harness/C48 (maxThreads bounds the
// concurrency).  Derived from harness/C12/pf_common.h (same idea: the REAL dispenso::parallel_for /
// for_each_n templates instantiated over a mock TaskSetT), extended by a model of *overlapping body
// invocations* on the sequential engine:
//
//   a body invocation = enter(ghost) ; scheduling point ; exit(ghost).
//   At the scheduling point the mock may run zero or more OTHER stored closures to completion
//   (symbolic choice).  This models another thread executing another task while this body is in
//   progress: two invocations are concurrent iff their lifetimes overlap (proper nesting).  The
//   nesting depth is bounded by VF_DEPTH in-flight invocations.
//
// Thread budget of the mock (what a real pool of N threads can do): at most N stored closures are
// in progress on pool threads, plus one more on the calling thread while the caller sits inside
// scheduleBulk()/wait() -- but not while the caller executes loop work itself (its own chunk, the
// granularity tail, a serial fallback).
//
// Configuration (-D):
//   VF_N       pool size (numPoolThreads) - a constant per instance
//   VF_S       bound on the range size (<= 15)
//   VF_START   start of the range (a constant of the instance)
//   VF_MODE    0 static chunking, 1 adaptive (kAuto), 2 explicit chunk size
//   VF_WAIT    0/1 fixed, 2 symbolic
//   VF_DEPTH   bound on simultaneously in-flight body invocations
//   VF_SPK     the first VF_SPK body invocations of every task (and of the caller) have a scheduling point
//   VF_GHI     largest granularity
//   VF_MINITEMS_HI largest minItemsPerChunk
//   VF_PRE     largest number of elements already in the states container
#pragma once
#include <new>
#include <utility>
#include <cstdint>
#include <cstdlib>
#include <limits>
#include <type_traits>

#include <dispenso/parallel_for.h>
#include "vf.h"

#if defined(__has_feature)
#if __has_feature(address_sanitizer)
#define VF_NATIVE_REPLAY 1
#endif
#endif

#ifndef VF_N
#define VF_N 1
#endif
#ifndef VF_S
#define VF_S 6
#endif
#ifndef VF_MODE
#define VF_MODE 0
#endif
#ifndef VF_WAIT
#define VF_WAIT 2
#endif
#ifndef VF_DEPTH
#define VF_DEPTH 2
#endif
#ifndef VF_GLO
#define VF_GLO 1
#endif
#ifndef VF_GHI
#define VF_GHI 3
#endif
#ifndef VF_MINITEMS_HI
#define VF_MINITEMS_HI 2
#endif
#ifndef VF_PRE
#define VF_PRE 2
#endif
#ifndef VF_CHUNK_HI
#define VF_CHUNK_HI 3
#endif
#ifndef VF_MT_LO
#define VF_MT_LO 0
#endif
#ifndef VF_L3
#define VF_L3 0
#endif
#ifndef VF_START
#define VF_START 0
#endif
#ifndef VF_SPK
#define VF_SPK 2
#endif

typedef int32_t IntT;

// ------------------------------------------------------------------------------------------------
// Environment contract stubs (functions that live in dispenso .cpp files)
// ------------------------------------------------------------------------------------------------
namespace dispenso {
namespace detail {
// One record: the model has one thread of control.  The loop bodies never read it; parallel_for
// reads it once on entry (external caller, not inside a parallel_for).
static PerThreadInfo g_vf_pti;
PerThreadInfo& PerPoolPerThreadInfo::info() {
  return g_vf_pti;
}
char* allocSmallBufferImpl(size_t ordinal) {
  return static_cast<char*>(::malloc(size_t{4} << ordinal));
}
void deallocSmallBufferImpl(size_t, void* buf) {
  ::free(buf);
}
} // namespace detail

alignas(std::vector<CacheGroup>) static char g_vf_l3_store[sizeof(std::vector<CacheGroup>)];
alignas(CacheGroup) static char g_vf_l3_groups[2 * sizeof(CacheGroup)];
const std::vector<CacheGroup>& CpuSet::l3CacheGroups() {
  return *reinterpret_cast<std::vector<CacheGroup>*>(g_vf_l3_store);
}
} // namespace dispenso

static void vf_set_l3_groups(uint32_t k) {
  auto* v = reinterpret_cast<std::vector<dispenso::CacheGroup>*>(dispenso::g_vf_l3_store);
  auto* g = reinterpret_cast<dispenso::CacheGroup*>(dispenso::g_vf_l3_groups);
  v->_M_impl._M_start = k ? g : nullptr;
  v->_M_impl._M_finish = k ? g + k : nullptr;
  v->_M_impl._M_end_of_storage = k ? g + 2 : nullptr;
}

// ------------------------------------------------------------------------------------------------
// Ghost state
// ------------------------------------------------------------------------------------------------
static bool g_done;            // the wait (parallel_for(wait=true) / taskSet.wait()) returned
static uint32_t g_inflight;    // body invocations in progress
static uint32_t g_maxInflight; // peak of g_inflight
static uint32_t g_calls;       // body invocations started
static bool g_inTask;          // innermost frame of control is a stored closure (else: the caller itself)
static bool g_callerInLoop;    // the calling thread is inside a body invocation of its own
static uint32_t g_frameCalls;  // body invocations started by the current task / by the caller so far
static bool g_depthCut;        // a scheduling point was reached with VF_DEPTH invocations in flight

// ------------------------------------------------------------------------------------------------
// Mock task set (TaskSetT): numPoolThreads(), pool(), scheduleBulk(count, gen), wait().
// scheduleBulk builds gen(0..count-1) in order; every closure runs exactly once, to completion:
// before scheduleBulk returns, inside wait(), or nested inside a body invocation in progress.
// ------------------------------------------------------------------------------------------------
struct MockPool {
  int dummy;
};

struct MockTaskSet {
  static constexpr uint32_t kMax = VF_N + 1;
  MockPool pool_;
  ssize_t nthreads;
  void* slots[kMax]; // queued closures of the current bulk (all of one type), null once started
  uint32_t nslots;
  uint32_t npending;
  uint32_t running; // stored closures in progress
  void (*runSlot)(MockTaskSet*, uint32_t);

  ssize_t numPoolThreads() const {
    return nthreads;
  }
  MockPool& pool() {
    return pool_;
  }

  template <typename Fn>
  static void runSlotImpl(MockTaskSet* self, uint32_t k) {
    Fn* f = static_cast<Fn*>(self->slots[k]);
    self->slots[k] = nullptr;
    --self->npending;
    ++self->running;
    bool saved = g_inTask;
    uint32_t savedCalls = g_frameCalls;
    g_inTask = true;
    g_frameCalls = 0;
    (*f)();
    g_inTask = saved;
    g_frameCalls = savedCalls;
    --self->running;
    delete f;
  }

  // a free thread exists that could start one more stored closure right now
  bool threadAvailable() const {
    uint32_t budget = static_cast<uint32_t>(nthreads) + (g_callerInLoop ? 0u : 1u);
    return running < budget;
  }

  // One pass over the queue in index order: every queued closure is started now (and runs to
  // completion) or skipped - a symbolic choice per closure unless `all`.  Slot indices are constants
  // at every call site, which keeps the closure pointers precise for the solver.  Any execution
  // order of the closures is reachable through the passes of scheduleBulk() + wait() (two there).
  void pass(bool all) {
    for (uint32_t j = 0; j < kMax; ++j) {
      if (slots[j] == nullptr) {
        continue;
      }
      if (!threadAvailable()) {
        break;
      }
      if (!all && !vf_nondet_bool()) {
        continue;
      }
      runSlot(this, j);
    }
  }

  // called from inside a body invocation: other threads make progress while this body runs
  void maybeRunOthers() {
    if (g_inflight >= VF_DEPTH) {
      if (npending && threadAvailable()) {
        g_depthCut = true;
      }
      return;
    }
    pass(false);
  }

  template <typename Gen>
  void scheduleBulk(size_t count, Gen&& gen) {
    typedef decltype(gen(size_t{0})) Fn;
    vf_check(npending == 0 && nslots == 0, "harness bound: one scheduleBulk per parallel loop call");
    runSlot = &runSlotImpl<Fn>;
    for (size_t i = 0; i < kMax + 1; ++i) {
      if (i >= count) {
        break;
      }
      vf_check(nslots < kMax, "harness bound: mock task set capacity suffices");
      if (nslots >= kMax) {
        return;
      }
      slots[nslots] = new Fn(gen(i));
      ++nslots;
      ++npending;
    }
    pass(false);
  }

  bool wait() {
    pass(false);
    pass(true);
    vf_check(npending == 0, "harness: wait() ran every queued closure");
    return false;
  }
};

static MockTaskSet* g_ts;

// enter / scheduling point / exit of one body invocation (state-independent part)
struct VfInvocation {
  bool iAmCaller;
  VfInvocation() {
    vf_check(!g_done, "no body invocation after the wait returned");
    ++g_calls;
    ++g_frameCalls;
    ++g_inflight;
    if (g_inflight > g_maxInflight) {
      g_maxInflight = g_inflight;
    }
    iAmCaller = !g_inTask;
    if (iAmCaller) {
      g_callerInLoop = true;
    }
  }
  // Only the first VF_SPK body invocations of a task (or of the caller) contain a scheduling point.
  void schedulingPoint() {
    if (g_frameCalls <= VF_SPK) {
      g_ts->maybeRunOthers();
    }
  }
  ~VfInvocation() {
    if (iAmCaller) {
      g_callerInLoop = false;
    }
    --g_inflight;
  }
};

static void vf_mock_init(MockTaskSet& ts) {
  ts.nthreads = VF_N;
  ts.nslots = 0;
  ts.npending = 0;
  ts.running = 0;
  ts.runSlot = nullptr;
  for (uint32_t i = 0; i < MockTaskSet::kMax; ++i) {
    ts.slots[i] = nullptr;
  }
  g_ts = &ts;
  auto& pti = dispenso::detail::g_vf_pti;
#if defined(VF_CTX) && VF_CTX
  // the caller is a worker thread of the same pool with a symbolic ring index (a task that issues a
  // parallel_for): parallel_for_staticImpl then picks the caller's chunk by ring index
  pti.pool = static_cast<void*>(&ts.pool());
  pti.ringIndex = static_cast<int32_t>(vf_nondet_u8() & 3) - 1;
  vf_assume(pti.ringIndex < static_cast<int32_t>(VF_N));
#else
  pti.pool = nullptr;
  pti.ringIndex = -1;
#endif
  pti.parForRecursionLevel = 0;
  vf_set_l3_groups(VF_L3 ? vf_range_u32(0, VF_L3) : 0);
}

// Small symbolic values are built as (byte & mask): the upper bits are then structurally zero, which
// lets the bit-level encoding of the 64-bit divisions in the code under test collapse.
static inline uint32_t vf_small(uint32_t mask, uint32_t lo, uint32_t hi) {
  uint32_t v = static_cast<uint32_t>(vf_nondet_u8()) & mask;
  vf_assume(v >= lo && v <= hi);
  return v;
}

// symbolic range: start = VF_START (constant of the instance), size 0..VF_S (VF_S <= 15)
static void vf_pick_range(IntT& start, IntT& end) {
  start = VF_START;
  end = static_cast<IntT>(VF_START + static_cast<IntT>(vf_small(15, 0, VF_S)));
}

static dispenso::ParForOptions vf_pick_options() {
  dispenso::ParForOptions opts;
  {
    // 0..N+2, or the default (INT32_MAX)
    uint32_t mt = vf_small(7, VF_MT_LO, 7);
    vf_assume(mt <= VF_N + 2 || mt == 7);
    opts.maxThreads = mt == 7 ? 0x7fffffffu : mt;
  }
  opts.minItemsPerChunk = vf_small(3, 0, VF_MINITEMS_HI);
  opts.granularity = vf_small(3, VF_GLO, VF_GHI);
#if VF_WAIT == 2
  opts.wait = vf_nondet_bool();
#else
  opts.wait = VF_WAIT;
#endif
  opts.reuseExistingState = vf_nondet_bool();
#if VF_MODE == 1
  opts.defaultChunking = dispenso::ParForChunking::kAdaptive;
#else
  opts.defaultChunking = dispenso::ParForChunking::kStatic;
#endif
  return opts;
}
