// C46, bounded recursive chain: functor k schedules functor k+1 through the same entry point while the pool is
// overloaded (symbolic load accounting); the thread starts at a symbolic, truthful inline depth d0 in 0..32.
// Ghost g_nest = number of dispenso-inlined functor frames currently on this thread's stack.  Property:
// d0 + g_nest <= kMaxInlineDepth at every functor entry (the limit is a compile-time constant, so the chain
// starts close to it instead of lowering it).
#define VF_THREAD_STATE_TRIVIAL 1
#include "../C47/pool_kit.h"
#include <dispenso/detail/per_thread_info.h>

#ifndef VF_N
#define VF_N 1
#endif
#ifndef VF_VIA
#define VF_VIA 0  // 0 ThreadPool::schedule, 1 TaskSet::schedule, 2 ConcurrentTaskSet::schedule
#endif
#ifndef VF_CHAIN
#define VF_CHAIN 4
#endif

namespace dispenso {
namespace detail {
char* allocSmallBufferImpl(size_t ordinal) { return static_cast<char*>(::malloc(size_t{4} << ordinal)); }
void deallocSmallBufferImpl(size_t, void* buf) { ::free(buf); }
void registerFineSchedulerQuanta() {}
}  // namespace detail
}  // namespace dispenso

using namespace dispenso;
using PTI = dispenso::detail::PerPoolPerThreadInfo;

static int g_d0, g_nest, g_max_nest;
static ThreadPool* g_pool;
#if VF_VIA == 1
static TaskSet* g_ts;
#elif VF_VIA == 2
static ConcurrentTaskSet* g_ts;
#endif

template <int K>
struct Link;
template <int K>
static void submit() {
#if VF_VIA == 0
  g_pool->schedule(Link<K>());
#else
  g_ts->schedule(Link<K>());
#endif
}
template <int K>
struct Link {
  void operator()() const {
    ++g_nest;
    if (g_nest > g_max_nest) g_max_nest = g_nest;
    vf_check(g_d0 + g_nest <= dispenso::detail::kMaxInlineDepth,
             "dispenso nested inline execution of scheduled functors beyond kMaxInlineDepth (recursive chain under overload)");
    submit<K + 1>();
    --g_nest;
  }
};
template <>
struct Link<VF_CHAIN> {
  void operator()() const {
    ++g_nest;
    if (g_nest > g_max_nest) g_max_nest = g_nest;
    vf_check(g_d0 + g_nest <= dispenso::detail::kMaxInlineDepth,
             "dispenso nested inline execution of scheduled functors beyond kMaxInlineDepth (recursive chain under overload)");
    --g_nest;
  }
};

extern "C" void vf_main() {
  ThreadPool& pool = *new ThreadPool(VF_N);
  g_pool = &pool;
  moodycamel::ProducerToken* wtok = new moodycamel::ProducerToken(pool.work_);
  pk::symbolic_load(pool, VF_N);  // workRemaining_, poolLoadFactor_, ... arbitrary: includes the overloaded pool
  pk::symbolic_caller(pool, wtok, VF_N);
  g_d0 = (int)vf_range_u32(0, (uint32_t)dispenso::detail::kMaxInlineDepth);
  PTI::inlineDepth() = g_d0;
#if VF_VIA == 1
  g_ts = new TaskSet(pool, (ssize_t)vf_range_u32(1, 8));
  g_ts->outstandingTaskCount_.store((ssize_t)vf_range_u32(0, 1u << 20), std::memory_order_relaxed);
#elif VF_VIA == 2
  g_ts = new ConcurrentTaskSet(pool, vf_nondet_bool() ? TaskCost::kHeavy : TaskCost::kLightweight,
                               (ssize_t)vf_range_u32(1, 8));
  g_ts->outstandingTaskCount_.store((ssize_t)vf_range_u32(0, 1u << 20), std::memory_order_relaxed);
#endif
  g_nest = 0;
  g_max_nest = 0;
  submit<1>();
  if (g_max_nest == VF_CHAIN) vf_reach("the whole chain ran nested on the caller");
  if (g_max_nest == 0) vf_reach("the first link was queued");
  vf_check(PTI::inlineDepth() == g_d0, "inline depth counter not restored after the chain");
}
