// C46: whenever dispenso runs a scheduled functor inline on the calling thread from inside a scheduling path,
// the thread's inline-depth counter (detail::PerPoolPerThreadInfo::inlineDepth) was < kMaxInlineDepth before and
// is larger by one while the functor runs (InlineDepthGuard) - the local inductive obligation that bounds the
// depth of dispenso's own inline nesting by the constant kMaxInlineDepth, whatever the number of tasks.
// One call of a real entry point (group VF_GROUP) from a symbolic pre-state of the real pool object
// (std::thread start modelled: pool threads never run, so every execution during the call is inline on the caller).
#define VF_THREAD_STATE_TRIVIAL 1
#include "../C47/pool_kit.h"
#include <dispenso/detail/per_thread_info.h>

#ifndef VF_N
#define VF_N 1
#endif
#ifndef VF_GROUP
#define VF_GROUP 0
#endif
#ifndef VF_COUNT
#define VF_COUNT 2
#endif

namespace dispenso {
namespace detail {
// environment contracts: small-buffer allocator = malloc/free, timer-resolution hook = no-op
char* allocSmallBufferImpl(size_t ordinal) { return static_cast<char*>(::malloc(size_t{4} << ordinal)); }
void deallocSmallBufferImpl(size_t, void* buf) { ::free(buf); }
void registerFineSchedulerQuanta() {}
}  // namespace detail
}  // namespace dispenso

using namespace dispenso;
using PTI = dispenso::detail::PerPoolPerThreadInfo;

static int g_d0;        // inline depth of the calling thread before the call
static int g_ran;       // number of functors that ran during the call (= inline on the caller)
static int g_untracked; // number of them that did not see depth == g_d0 + 1

struct Fn {
  void operator()() const {
    ++g_ran;
    if (PTI::inlineDepth() != g_d0 + 1) ++g_untracked;
  }
};
struct Gen {
  Fn operator()(size_t) const { return Fn(); }
};

extern "C" void vf_main() {
  ThreadPool& pool = *new ThreadPool(VF_N);  // never destroyed: the claim is about the call alone
  moodycamel::ProducerToken* wtok = new moodycamel::ProducerToken(pool.work_);

  // ---- symbolic pre-state: load accounting, sleepers, caller identity, inline depth 0..40 ----------
  pk::symbolic_sleepers(pool, VF_N);
  pk::symbolic_load(pool, VF_N);
  pk::symbolic_caller(pool, wtok, VF_N);
  pk::symbolic_depths(40);
  g_d0 = PTI::inlineDepth();
  g_ran = 0;
  g_untracked = 0;

#if VF_GROUP == 0
  switch (vf_range_u32(0, 3)) {
    case 0: pool.schedule(Fn()); break;                  // thread_pool.h:593
    case 1: pool.schedulePlaced(Fn()); break;            // thread_pool.h:625
    case 2: pool.schedule(*wtok, Fn()); break;           // thread_pool.h:610
    default: pool.schedulePlaced(*wtok, Fn()); break;    // thread_pool.h:642
  }
#elif VF_GROUP == 1
  if (vf_nondet_bool()) {
    pool.scheduleBulk((size_t)VF_COUNT, Gen());          // thread_pool.h:1022 scheduleBulkImpl<false>
  } else {
    pool.scheduleBulkPlaced((size_t)VF_COUNT, Gen());    // scheduleBulkImpl<true>
  }
#else
  const ssize_t mult = (ssize_t)vf_range_u32(1, 8);
#if VF_GROUP == 2 || VF_GROUP == 4
  TaskSet* ts = new TaskSet(pool, mult);
#else
  TaskCost cost = vf_nondet_bool() ? TaskCost::kHeavy : TaskCost::kLightweight;
  ConcurrentTaskSet* ts = new ConcurrentTaskSet(pool, cost, mult);
#endif
  ts->outstandingTaskCount_.store((ssize_t)vf_range_u32(0, 1u << 20), std::memory_order_relaxed);
  ts->canceled_.store(vf_nondet_bool(), std::memory_order_relaxed);
#if VF_GROUP == 2 || VF_GROUP == 3
  ts->schedule(Fn());                                    // task_set.h:112 / task_set.h:299
#else
  ts->scheduleBulk((size_t)VF_COUNT, Gen());             // task_set_impl.h scheduleBulkImpl / ...Placed
#endif
#endif

  if (g_ran > 0) {
    vf_reach("a functor was run inline on the caller");
    vf_check(g_d0 < dispenso::detail::kMaxInlineDepth,
             "functor run inline from a scheduling path although the thread's inline depth had reached kMaxInlineDepth");
    vf_check(g_untracked == 0,
             "inline depth counter is not larger by one while the inlined functor runs (nesting not tracked)");
  } else {
    vf_reach("the functor was queued");
  }
  vf_check(PTI::inlineDepth() == g_d0, "inline depth counter not restored after the call");
}
