TECHNIQUE = ('bounded symbolic execution of LLVM IR lowered to C: CBMC/SAT (cadical), one real scheduling call (or a '
             'bounded recursive chain of them) from a symbolic pre-state of the real ThreadPool object, virtual workers')
ASSUMPTIONS = [
    'moodycamel::ConcurrentQueue replaced by its contract model (shim/moodycamel, bounded FIFO)',
    'detail::alignedMalloc/alignedFree replaced by their contract (typed fresh block); small-buffer allocator = malloc/free',
    'std::thread start is modelled (pool threads never run by themselves), so a functor that runs during the call '
    'was run inline on the caller; the pool pre-state a worker could have produced is written into the private fields',
    'pool has >= 1 thread (a 0-thread pool runs everything inline by documented design)',
    'the thread-local inline depth counter is truthful at the start (it is only written by InlineDepthGuard)',
]
OUTSIDE = ('the unbounded claim is reduced to the per-site inductive obligation (depth < kMaxInlineDepth before, +1 while '
           'the functor runs) plus chains of <= 4 links; sites outside ThreadPool / TaskSet / ConcurrentTaskSet '
           '(pipeline serial stage, graph executor, future then-chains) are not encoded here; API-call granularity; '
           'pool sizes > 2')

_SRC = ['dispenso/thread_pool.cpp', 'dispenso/thread_pool_wake.cpp', 'dispenso/detail/per_thread_info.cpp',
        'dispenso/task_set.cpp']
_R16 = '_ZN8dispenso21ConcurrentObjectArenaINS_14MpmcRingBufferINS_12OnceFunctionELm16ELb1EEEmLm64EE7grow_byEm.4'
_R4 = '_ZN8dispenso21ConcurrentObjectArenaINS_14MpmcRingBufferINS_12OnceFunctionELm4ELb1EEEmLm64EE7grow_byEm.4'
_PRE = ('symbolic pre-state: workRemaining_ in [-16,2^40], poolLoadFactor_ in [0,2^40], numNotWorking_, signaling-wake '
        'on/off, queue hint, steal-ring hint mask, per worker awake/asleep/asleep+claimed, caller = external thread / '
        'worker of this pool / worker of another pool, inline depth 0..40, parallel_for recursion level 0..3; task '
        'sets: load multiplier 1..8, outstanding count 0..2^20, canceled flag symbolic')
_GROUPS = {
    0: ('pool_sched', 'ThreadPool::schedule(f) | schedulePlaced(f) | schedule(ProducerToken&, f) | '
                      'schedulePlaced(ProducerToken&, f) (symbolic choice)'),
    1: ('pool_bulk', 'ThreadPool::scheduleBulk(n, gen) | scheduleBulkPlaced(n, gen) (symbolic choice)'),
    2: ('ts_sched', 'TaskSet::schedule(f)'),
    3: ('cts_sched', 'ConcurrentTaskSet::schedule(f) (cost kHeavy -> schedulePlaced / kLightweight symbolic)'),
    4: ('ts_bulk', 'TaskSet::scheduleBulk(n, gen)'),
    5: ('cts_bulk', 'ConcurrentTaskSet::scheduleBulk(n, gen) (cost symbolic)'),
}
_VIA = {0: ('pool', 'ThreadPool::schedule'), 1: ('ts', 'TaskSet::schedule'), 2: ('cts', 'ConcurrentTaskSet::schedule')}


def _base(n):
    return {
        'engine': 'cbmc', 'shims': ['moodycamel'], 'repo_sources': _SRC,
        'rt_defs': {'VF_HAVE_THREAD_MODEL': 1}, 'models': ['aligned_alloc'],
        'cflags': ['-DDISPENSO_TUNE_STEAL_RING_SHARING=1'],
        'unwind': 3, 'nthreads': 1, 'unwindset': {_R16: 17, _R4: 5}, 'timeout': 900,
    }


def site(grp, n, tiers, count=2):
    name, what = _GROUPS[grp]
    d = _base(n)
    bulk = grp in (1, 4, 5)
    if grp in (4, 5):
        # task-set bulk reaches the ring fast path, whose cascade-host wrapper lambda (only created for pools with
        # more than one wake group) is a costly function-pointer candidate: real build switch, configuration bound
        d['cflags'] = d['cflags'] + ['-DDISPENSO_DISABLE_CASCADE_WAKERANGE']
    d.update({'name': '%s_n%d' % (name, n) + ('_c%d' % count if bulk else ''), 'src': 'inl.cpp', 'tiers': tiers,
              'defs': {'VF_N': n, 'VF_GROUP': grp, 'VF_COUNT': count, 'VF_MQ_CAP': 4},
              'bounds': 'one call of %s%s on a real ThreadPool(%d) (real constructor); %s' % (
                  what, ' with n = %d' % count if bulk else '', n, _PRE)})
    return d


def chain(via, n, tiers, links=4):
    name, what = _VIA[via]
    d = _base(n)
    d.update({'name': 'chain_%s_n%d_l%d' % (name, n, links), 'src': 'chain.cpp', 'tiers': tiers,
              'defs': {'VF_N': n, 'VF_VIA': via, 'VF_CHAIN': links, 'VF_MQ_CAP': 6},
              'bounds': 'recursive chain of %d functors, each scheduling the next through %s on a real ThreadPool(%d); '
                        'load accounting and caller identity symbolic, starting inline depth 0..32 symbolic, task-set '
                        'load multiplier 1..8 and outstanding count symbolic' % (links, what, n)})
    return d


INSTANCES = [
    site(0, 1, ['quick', 'thorough']),
    site(2, 1, ['quick', 'thorough']),
    site(3, 1, ['quick', 'thorough']),
    chain(0, 1, ['quick', 'thorough'], 3),
    chain(2, 1, ['quick', 'thorough'], 3),
    site(1, 1, ['thorough']),
    site(4, 1, ['quick', 'thorough']),
    site(5, 1, ['thorough']),
    chain(1, 1, ['thorough'], 4),
    chain(0, 1, ['thorough'], 4),
    chain(2, 1, ['thorough'], 4),
    site(0, 2, ['thorough']),
    site(2, 2, ['thorough']),
    site(3, 2, ['thorough']),
]
