#!/usr/bin/env python3
"""Regenerates MANIFEST.json from harness/*/spec.py (claimed) and not_applicable.json."""
import json, os, sys, importlib.util
ROOT = os.path.dirname(os.path.abspath(__file__))
props = [json.loads(l) for l in open(os.path.join(ROOT, 'properties.jsonl'))]
na = json.load(open(os.path.join(ROOT, 'not_applicable.json')))
checks = []
notapp = []
for p in props:
    pid = p['id']
    sp = os.path.join(ROOT, 'harness', pid, 'spec.py')
    if os.path.exists(sp) and pid in na.get('claimed', []):
        s = importlib.util.spec_from_file_location('s', sp); m = importlib.util.module_from_spec(s); s.loader.exec_module(m)
        checks.append({
            'property_id': pid,
            'quick_cmd': './check %s --tier quick' % pid,
            'thorough_cmd': './check %s --tier thorough' % pid,
            'evidence_file': 'evidence/%s.json' % pid,
            'replay_cmd_template': './check %s --replay {path}' % pid,
            'engine': 'vf',
            'level_claimed': {
                'category': getattr(m, 'CATEGORY', 'model_checking'),
                'text': getattr(m, 'LEVEL', 'Bounded symbolic execution of the real dispenso functions lowered from clang IR; the solver decides every assertion for all inputs / interleavings inside the stated bounds; nothing is claimed outside them.'),
                'design_ref': 'DESIGN.md section 3 (%s)' % pid},
            'level_note': getattr(m, 'NOTE', 'Trusted: clang -O1 lowering, the IR->C/SMT translator (validated, not verified), cbmc/z3, the environment stubs listed in the evidence file. Bounds are part of the claim.'),
            'technique': getattr(m, 'TECHNIQUE', 'bounded symbolic execution of LLVM IR: CBMC (SAT) over IR-derived C'),
        })
    else:
        notapp.append({'property_id': pid, 'reason': na['reasons'].get(pid, na['default'])})
man = {
    'version': 1,
    'setup_cmd': 'python3 -m compileall -q vf check >/dev/null 2>&1; true',
    'hooks': {'guard': 'DISPENSO_VERIF',
              'enable': 'harnesses that need an interleaving point inside a function are compiled with -DDISPENSO_VERIF (spec cflags) and define dispenso_verif_hook(site); everything else relies on -fno-access-control and needs no hook',
              'baseline_off_cmd': 'cmake --build /repo/_build && ctest --test-dir /repo/_build -j8 --timeout 900',
              'source_commits': ['ef7d441'], 'add_only': True},
    'engines': [{'name': 'vf', 'path': 'vf/', 'serves_properties': [c['property_id'] for c in checks],
                 'kind_free_text': 'clang-14 LLVM IR -> own translator -> C for cbmc 6.11 (sequential and partial-order concurrent encodings) / SMT-LIB for z3; native replay of counterexamples'}],
    'checks': checks,
    'not_applicable': notapp,
    'notes': 'See DESIGN.md. known_findings.jsonl lists repaired (fixed:) and recorded (finding) defects.',
}
json.dump(man, open(os.path.join(ROOT, 'MANIFEST.json'), 'w'), indent=1)
print(len(checks), 'claimed;', len(notapp), 'not applicable')
