#!/usr/bin/env python3
"""Validates thorough-tier instances one by one on the unchanged tree (each with its own time limit)
and records the ones that finish without violation / inconclusive in thorough_ok.json."""
import json, os, sys, subprocess, time, threading
from concurrent.futures import ThreadPoolExecutor, as_completed
ROOT = os.path.dirname(os.path.abspath(__file__))
sys.path.insert(0, ROOT)
from vf import engine
LIMIT = int(os.environ.get('VT_LIMIT', '420'))
JOBS = int(os.environ.get('VT_JOBS', '5'))
DEADLINE = time.time() + int(os.environ.get('VT_BUDGET', '9000'))
okp = os.path.join(ROOT, 'thorough_ok.json')
ok = json.load(open(okp))
man = json.load(open(os.path.join(ROOT, 'MANIFEST.json')))
order = (sys.argv[1:] or [c['property_id'] for c in man['checks']])
todo = []
for pid in order:
    spec = engine.load_spec(pid)
    for i in spec.INSTANCES:
        t = i.get('tiers', ['quick', 'thorough'])
        if 'thorough' not in t or i['name'] in ok.get(pid, []):
            continue
        if 'quick' in t and not i.get('thorough'):
            ok.setdefault(pid, []).append(i['name'])   # same configuration as the (validated) quick tier
            continue
        todo.append((pid, i['name']))
json.dump(ok, open(okp, 'w'), indent=1, sort_keys=True)
print(len(todo), 'instances to validate', flush=True)
lock = threading.Lock()
def run(item):
    pid, name = item
    if time.time() > DEADLINE:
        return item, None, 0
    env = dict(os.environ, VERIF_THOROUGH_ALL='1', VERIF_JOBS='1',
               VERIF_EVID_DIR=os.path.join(ROOT, '.work', 'vt_evidence'))
    t = time.time()
    try:
        p = subprocess.run(['./check', pid, '--tier', 'thorough', '--only', name], cwd=ROOT, env=env,
                           stdout=subprocess.PIPE, stderr=subprocess.STDOUT, timeout=LIMIT)
        rc = p.returncode
    except subprocess.TimeoutExpired:
        rc = 124
        subprocess.run("pkill -f '%s/%s-thorough/h.c'" % (pid, name), shell=True)
    return item, rc, time.time() - t
os.makedirs(os.path.join(ROOT, '.work', 'vt_evidence'), exist_ok=True)
log = open(os.path.join(ROOT, '.work', 'vt.log'), 'a')
with ThreadPoolExecutor(JOBS) as ex:
    for fut in as_completed([ex.submit(run, it) for it in todo]):
        (pid, name), rc, dt = fut.result()
        log.write('%s %s rc=%s %.0fs\n' % (pid, name, rc, dt)); log.flush()
        if rc == 0:
            with lock:
                ok.setdefault(pid, []).append(name)
                json.dump(ok, open(okp, 'w'), indent=1, sort_keys=True)
