#!/usr/bin/env python3
"""Rebuilds thorough_ok.json from the logs of completed thorough-tier runs (.work/thorough/*.log):
an instance is listed when its thorough configuration finished without INCONCLUSIVE on the unchanged
tree.  ./check --tier thorough runs the listed instances in their thorough configuration and every
other quick instance in its quick configuration (see check)."""
import json, re, sys, os
ROOT = os.path.dirname(os.path.abspath(__file__))
sys.path.insert(0, ROOT)
from vf import engine
ok = {}
try:
    ok = json.load(open(os.path.join(ROOT, 'thorough_ok.json')))
except Exception:
    pass
seen = {}
for line in open(os.path.join(ROOT, '.work/thorough2/SUMMARY.txt')):
    m = re.match(r'(C\d+) rc=(\d+)', line)
    if m:
        seen[m.group(1)] = int(m.group(2))
for pid, rc in seen.items():
    if rc not in (0, 2):   # 1 = violation, 124 = timed out as a whole: nothing validated
        ok.pop(pid, None) if rc == 124 else None
        continue
    spec = engine.load_spec(pid)
    names = [i['name'] for i in spec.INSTANCES if 'thorough' in i.get('tiers', ['quick', 'thorough'])]
    bad = set()
    for l in open(os.path.join(ROOT, '.work/thorough2/%s.log' % pid)):
        mm = re.match(r'INCONCLUSIVE[^:]*: (\S+?):', l)
        if mm:
            bad.add(mm.group(1))
    ok[pid] = [n for n in names if n not in bad]
json.dump(ok, open(os.path.join(ROOT, 'thorough_ok.json'), 'w'), indent=1, sort_keys=True)
print({k: len(v) for k, v in ok.items()})
