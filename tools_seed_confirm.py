#!/usr/bin/env python3
"""tools_seed_confirm.py <ID> [--check-ids C39,C11] [--tier quick] [--skip-suite]

Confirms a seeded change produced by an independent sub-agent in the scratch worktree /tmp/seed_<ID>
(change applied there, demo under demo/), then runs our checks against it and files it under
/verif/seeded/<ID>/ (patch.diff, demo.cpp, build.sh, README.md, meta.json).

Steps: (1) patch.diff == `git diff -- dispenso`; (2) demo fails with the change, passes without;
(3) the repository's test suite passes with the change (ctest in the worktree's _build; failures are
compared with the load-sensitive tests that also fail on the pristine tree under load);
(4) `VERIF_REPO=/tmp/seed_<ID> ./check <id>` for each id: does it report a VIOLATION?
Nothing is ever applied to /repo.
"""
import os, sys, json, subprocess, shutil, time, re, argparse

ROOT = os.path.dirname(os.path.abspath(__file__))
FLAKY = re.compile(r'TimedTask|Priorty|Priority|CpuSet\.L[23]Groups|flaky', re.I)


def sh(cmd, cwd=None, timeout=None, env=None):
    p = subprocess.run(cmd, shell=isinstance(cmd, str), cwd=cwd, stdout=subprocess.PIPE, stderr=subprocess.STDOUT,
                       timeout=timeout, env=env)
    return p.returncode, p.stdout.decode('utf8', 'replace')


def main():
    ap = argparse.ArgumentParser()
    ap.add_argument('sid')
    ap.add_argument('--check-ids')
    ap.add_argument('--tier', default='quick')
    ap.add_argument('--skip-suite', action='store_true')
    ap.add_argument('--dir')
    a = ap.parse_args()
    sid = a.sid
    wt = a.dir or '/tmp/seed_%s' % sid
    ids = (a.check_ids or sid.split('_')[0]).split(',')
    demo = os.path.join(wt, 'demo')
    meta = {}
    mp = os.path.join(ROOT, 'seeded', sid, 'meta.json')
    if os.path.exists(mp):
        meta = json.load(open(mp))   # keep earlier results (e.g. the suite run) when re-running the checks
    meta.update({'seed': sid, 'breaks_property': ids[0], 'worktree': wt, 'confirmed_at': time.strftime('%Y-%m-%d %H:%M:%S')})
    rc, diff = sh('git diff -- dispenso', cwd=wt)
    pd = open(os.path.join(demo, 'patch.diff')).read()
    meta['patch_matches_worktree'] = diff.strip() == pd.strip()
    if not meta['patch_matches_worktree']:
        open(os.path.join(demo, 'patch.diff'), 'w').write(diff)
    meta['files_changed'] = re.findall(r'^\+\+\+ b/(\S+)', diff, re.M)
    # (2) demo with / without
    rc, out = sh('sh demo/build.sh', cwd=wt, timeout=900)
    rcw, outw = sh('./demo/demo', cwd=wt, timeout=600)
    meta['demo_with_change_exit'] = rcw
    sh('git stash -q', cwd=wt)
    try:
        rc, out = sh('sh demo/build.sh', cwd=wt, timeout=900)
        rco, outo = sh('./demo/demo', cwd=wt, timeout=600)
    finally:
        sh('git stash pop -q', cwd=wt)
    meta['demo_without_change_exit'] = rco
    rc, out = sh('sh demo/build.sh', cwd=wt, timeout=900)  # leave the demo built with the change
    meta['demo_confirmed'] = rcw != 0 and rco == 0
    # (3) suite
    if not a.skip_suite:
        rc, out = sh('cmake --build _build -j6', cwd=wt, timeout=3600)
        t = time.time()
        rc, out = sh('ctest --test-dir _build -j6 --timeout 900', cwd=wt, timeout=7200)
        failed = re.findall(r'^\s*\d+ - (\S+) \((?!Skipped|Disabled|Not Run)', out, re.M)
        summ = re.findall(r'\d+% tests passed.*', out)
        meta['suite'] = {'summary': summ[-1] if summ else out[-300:], 'failed': failed,
                         'failed_not_load_sensitive': [f for f in failed if not FLAKY.search(f)],
                         'wall_s': round(time.time() - t)}
        meta['suite_passes_with_change'] = not meta['suite']['failed_not_load_sensitive']
    # (4) our checks
    meta.setdefault('checks_history', []).append(meta.get('checks')) if meta.get('checks') else None
    meta['checks'] = {}
    env = dict(os.environ, VERIF_REPO=wt)
    for cid in ids:
        t = time.time()
        rc, out = sh(['./check', cid, '--tier', a.tier], cwd=ROOT, env=env, timeout=7200)
        viol = [l for l in out.split('\n') if l.startswith('VIOLATION')]
        meta['checks'][cid] = {'tier': a.tier, 'exit': rc, 'violations': viol[:6],
                               'summary': out.strip().split('\n')[-1][:300], 'wall_s': round(time.time() - t),
                               'caught': rc == 1 and bool(viol)}
    dst = os.path.join(ROOT, 'seeded', sid)
    os.makedirs(dst, exist_ok=True)
    for f in os.listdir(demo):
        p = os.path.join(demo, f)
        if os.path.isfile(p) and os.path.getsize(p) < 200000 and not os.access(p, os.X_OK) or f.endswith('.sh'):
            shutil.copy(p, os.path.join(dst, f))
    meta['what_it_needs_to_manifest'] = 'see README.md (written by the seeding agent)'
    meta['ran'] = ['sh demo/build.sh && ./demo/demo (with and without the change)',
                   'ctest --test-dir _build -j6 --timeout 900 (with the change)'] + \
                  ['VERIF_REPO=%s ./check %s --tier %s' % (wt, c, a.tier) for c in ids]
    json.dump(meta, open(os.path.join(dst, 'meta.json'), 'w'), indent=1)
    print(json.dumps({k: meta[k] for k in ('seed', 'demo_confirmed', 'suite_passes_with_change', 'checks') if k in meta}, indent=1))


if __name__ == '__main__':
    main()
