// Pre-included (clang -include) by harnesses whose spec lists 'models': ['aligned_alloc'].
// Keeps dispenso::detail::alignedMalloc / alignedFree out of line so that the translator can replace
// them by their contract (rt: vf_aligned_malloc / vf_aligned_free: a fresh, suitably aligned block of
// `bytes` bytes; the real address arithmetic is verified separately under C44).
#pragma once
#include <cstddef>
namespace dispenso {
namespace detail {
__attribute__((noinline)) void* alignedMalloc(size_t bytes, size_t alignment);
__attribute__((noinline)) void alignedFree(void* ptr);
}  // namespace detail
}  // namespace dispenso
