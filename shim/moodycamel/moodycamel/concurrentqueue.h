// Contract model of moodycamel::ConcurrentQueue (third-party, trusted, NOT verified here).
// Replaces dispenso/third-party/moodycamel/concurrentqueue.h in harnesses whose spec lists
// 'shims': ['moodycamel'].  Contract encoded: a linearizable, bounded (VF_MQ_CAP, a model bound:
// executions that would exceed it are cut) queue; every operation is one atomic step preceded by a
// scheduling point; elements come out in global FIFO order (one admissible refinement of
// "per-producer FIFO"; cross-producer reorderings are outside the model); enqueue never fails
// (allocation failure out of scope); try_dequeue never fails spuriously on a non-empty queue.
#pragma once
#include <cstddef>
#include <cstdint>
#include <new>
#include <utility>
#include <iterator>
#include "vf.h"

#ifndef VF_MQ_CAP
#define VF_MQ_CAP 4
#endif

namespace moodycamel {

struct ConcurrentQueueDefaultTraits {
  typedef std::size_t size_t;
  typedef std::size_t index_t;
  static const size_t BLOCK_SIZE = 32;
};

template <typename T, typename Traits = ConcurrentQueueDefaultTraits>
class ConcurrentQueue;

namespace vfdetail {
inline uint32_t nextTokenId() {
  static uint32_t next = 0;
  return ++next;
}
}  // namespace vfdetail

struct ProducerToken {
  template <typename T, typename Traits>
  explicit ProducerToken(ConcurrentQueue<T, Traits>&) : id(vfdetail::nextTokenId()) {}
  ProducerToken(ProducerToken&& o) noexcept : id(o.id) { o.id = 0; }
  ProducerToken& operator=(ProducerToken&& o) noexcept { id = o.id; o.id = 0; return *this; }
  ProducerToken(const ProducerToken&) = delete;
  ProducerToken& operator=(const ProducerToken&) = delete;
  bool valid() const { return id != 0; }
  uint32_t id;
};

struct ConsumerToken {
  template <typename T, typename Traits>
  explicit ConsumerToken(ConcurrentQueue<T, Traits>&) {}
  ConsumerToken(ConsumerToken&&) noexcept {}
  ConsumerToken& operator=(ConsumerToken&&) noexcept { return *this; }
  ConsumerToken(const ConsumerToken&) = delete;
  ConsumerToken& operator=(const ConsumerToken&) = delete;
};

template <typename T, typename Traits>
class ConcurrentQueue {
 public:
  typedef ::moodycamel::ProducerToken producer_token_t;
  typedef ::moodycamel::ConsumerToken consumer_token_t;
  typedef typename Traits::size_t size_t;
  static const size_t BLOCK_SIZE = Traits::BLOCK_SIZE;

  explicit ConcurrentQueue(size_t = 0) : n_(0) {}
  ConcurrentQueue(size_t, size_t, size_t) : n_(0) {}
  ConcurrentQueue(const ConcurrentQueue&) = delete;
  ConcurrentQueue& operator=(const ConcurrentQueue&) = delete;
  ~ConcurrentQueue() {
    for (uint32_t i = 0; i < n_; ++i) at(i)->~T();
    n_ = 0;
  }

  bool enqueue(const T& v) { return push(0, v); }
  bool enqueue(T&& v) { return push(0, std::move(v)); }
  bool enqueue(const producer_token_t& t, const T& v) { return push(t.id, v); }
  bool enqueue(const producer_token_t& t, T&& v) { return push(t.id, std::move(v)); }
  bool try_enqueue(const T& v) { return push(0, v); }
  bool try_enqueue(T&& v) { return push(0, std::move(v)); }
  bool try_enqueue(const producer_token_t& t, const T& v) { return push(t.id, v); }
  bool try_enqueue(const producer_token_t& t, T&& v) { return push(t.id, std::move(v)); }

  template <typename It>
  bool enqueue_bulk(It first, size_t count) { return pushBulk(0, first, count); }
  template <typename It>
  bool enqueue_bulk(const producer_token_t& t, It first, size_t count) { return pushBulk(t.id, first, count); }
  template <typename It>
  bool try_enqueue_bulk(It first, size_t count) { return pushBulk(0, first, count); }
  template <typename It>
  bool try_enqueue_bulk(const producer_token_t& t, It first, size_t count) { return pushBulk(t.id, first, count); }

  template <typename U>
  bool try_dequeue(U& out) { return pop(0, false, out); }
  template <typename U>
  bool try_dequeue(consumer_token_t&, U& out) { return pop(0, false, out); }
  template <typename U>
  bool try_dequeue_non_interleaved(U& out) { return pop(0, false, out); }
  template <typename U>
  bool try_dequeue_from_producer(const producer_token_t& t, U& out) { return pop(t.id, true, out); }

  template <typename It>
  size_t try_dequeue_bulk(It out, size_t max) { return popBulk(out, max); }
  template <typename It>
  size_t try_dequeue_bulk(consumer_token_t&, It out, size_t max) { return popBulk(out, max); }

  size_t size_approx() const {
    vf_sched_point();
    return n_;
  }
  static constexpr bool is_lock_free() { return true; }

 protected:
  // typed slots (a union member is not constructed/destroyed implicitly): the solver sees objects of
  // type T, not a byte buffer, so pointers stored inside elements keep their targets
  union Slot {
    T v;
    Slot() {}
    ~Slot() {}
  };
  T* at(uint32_t i) { return &buf_[i].v; }

  template <typename V>
  bool push(uint32_t producer, V&& v) {
    vf_sched_point();
    VfAtomic a;
    vf_assume(n_ < VF_MQ_CAP);  // model bound
    new (at(n_)) T(std::forward<V>(v));
    prod_[n_] = producer;
    ++n_;
    return true;
  }
  template <typename It>
  bool pushBulk(uint32_t producer, It first, size_t count) {
    vf_sched_point();
    VfAtomic a;
    vf_assume(n_ + count <= VF_MQ_CAP);  // model bound
    for (size_t i = 0; i < count; ++i) {
      new (at(n_)) T(*first);
      ++first;
      prod_[n_] = producer;
      ++n_;
    }
    return true;
  }
  void removeAt(uint32_t k) {
    at(k)->~T();
    for (uint32_t i = k; i + 1 < n_; ++i) {
      new (at(i)) T(std::move(*at(i + 1)));
      at(i + 1)->~T();
      prod_[i] = prod_[i + 1];
    }
    --n_;
  }
  template <typename U>
  bool pop(uint32_t producer, bool fromProducer, U& out) {
    vf_sched_point();
    VfAtomic a;
    for (uint32_t i = 0; i < n_; ++i) {
      if (!fromProducer || prod_[i] == producer) {
        out = std::move(*at(i));
        removeAt(i);
        return true;
      }
    }
    return false;
  }
  template <typename It>
  size_t popBulk(It out, size_t max) {
    vf_sched_point();
    VfAtomic a;
    size_t got = 0;
    while (got < max && n_ > 0) {
      *out = std::move(*at(0));
      ++out;
      removeAt(0);
      ++got;
    }
    return got;
  }

  Slot buf_[VF_MQ_CAP];
  uint32_t prod_[VF_MQ_CAP];
  uint32_t n_;
};

}  // namespace moodycamel
