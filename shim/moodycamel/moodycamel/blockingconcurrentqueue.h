// Contract model of moodycamel::BlockingConcurrentQueue (see concurrentqueue.h in this directory).
// wait_dequeue blocks until an element is available (engine cbmc-seq: exact blocking through
// vf_block_until; a waiter that can never be served is reported as a deadlock).
#pragma once
#include "concurrentqueue.h"

extern "C" void vf_block_until(uint32_t* nonzero);

namespace moodycamel {
template <typename T, typename Traits = ConcurrentQueueDefaultTraits>
class BlockingConcurrentQueue : public ConcurrentQueue<T, Traits> {
  typedef ConcurrentQueue<T, Traits> Base;

 public:
  explicit BlockingConcurrentQueue(size_t c = 0) : Base(c) {}
  template <typename U>
  void wait_dequeue(U& item) {
    for (;;) {
      if (this->try_dequeue(item)) return;
      vf_block_until(&this->n_);
    }
  }
  template <typename U>
  void wait_dequeue(ConsumerToken&, U& item) { wait_dequeue(item); }
};
}  // namespace moodycamel
